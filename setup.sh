#!/bin/bash
# Offline, idempotent: overlay venv on top of /venv (which holds the repository's own dependencies and the
# editable install of /repo) plus crosshair-tool and z3-solver from the local wheelhouse.
set -e
cd "$(dirname "$0")"
V=.venv
if [ -x $V/bin/python ] && $V/bin/python -c "import z3, crosshair, networkx, pytestarch" 2>/dev/null; then
  exit 0
fi
rm -rf $V
/venv/bin/python -m venv $V
SP=$($V/bin/python -c "import sysconfig; print(sysconfig.get_paths()['purelib'])")
echo "import site; site.addsitedir('/venv/lib/python3.12/site-packages')" > "$SP/_overlay.pth"
PIP_NO_INDEX=1 $V/bin/pip install -q --no-index --find-links /opt/veriftools/wheels crosshair-tool z3-solver >/dev/null 2>&1 \
  || PIP_NO_INDEX=1 $V/bin/pip install --no-index --find-links /opt/veriftools/wheels crosshair-tool z3-solver
$V/bin/python -c "import z3, crosshair, networkx, pytestarch; print('verif venv ready: z3', z3.get_version_string())"
