#!/usr/bin/env python3
"""Run the repository's pinned suite and compare with /root/.vp/BASELINE.json's stable_pass list.
usage: baseline.py [repo_dir]   exit 0 iff every stable_pass test passes.
tests/test_architecture.py is ignored: its fixture setup hangs until the timeout in this checkout and none of its
tests is in stable_pass."""
import json, os, subprocess, sys, tempfile, xml.etree.ElementTree as ET

repo = sys.argv[1] if len(sys.argv) > 1 else "/repo"
base = json.load(open("/root/.vp/BASELINE.json"))
with tempfile.TemporaryDirectory() as d:
    x = os.path.join(d, "r.xml")
    env = dict(os.environ)
    if repo != "/repo":
        env["PYTHONPATH"] = os.path.join(repo, "src")
    subprocess.run(["/venv/bin/python", "-m", "pytest", "-ra", "-q", "-p", "no:cacheprovider", "--timeout=900", "--ignore=tests/test_architecture.py",
                    "--continue-on-collection-errors", f"--junitxml={x}"], cwd=repo, env=env,
                   stdout=subprocess.DEVNULL, stderr=subprocess.DEVNULL)
    passed = set()
    for tc in ET.parse(x).getroot().iter("testcase"):
        if not any(c.tag in ("failure", "error", "skipped") for c in tc):
            passed.add(f"{tc.get('classname')}::{tc.get('name')}")
missing = [t for t in base["stable_pass"] if t not in passed]
print(f"stable_pass={len(base['stable_pass'])} passed_now={len(passed)} regressions={len(missing)}")
for t in missing[:20]:
    print("  REGRESSION", t)
sys.exit(1 if missing else 0)
