#!/usr/bin/env python3
"""Independently confirm a seeded change in a fresh scratch worktree of /repo's HEAD.

usage: confirm_seed.py <patch.diff> <demo_test.py>
prints: clean_demo=pass|fail  apply=ok|fail  baseline=ok|regressions  patched_demo=pass|fail   and exits 0 iff
        clean_demo=pass, apply=ok, baseline=ok, patched_demo=fail (i.e. the change is a valid seeded change).
The worktree is created under /tmp and removed afterwards."""
import os
import shutil
import subprocess
import sys
import tempfile

patch, demo = os.path.abspath(sys.argv[1]), os.path.abspath(sys.argv[2])
wt = tempfile.mkdtemp(prefix="confirm_", dir="/tmp")
os.rmdir(wt)
subprocess.run(["git", "-C", "/repo", "worktree", "add", "-q", "--detach", wt, "HEAD"], check=True)
try:
    shutil.copy(demo, os.path.join(wt, "seed_demo_test.py"))
    env = dict(os.environ, PYTHONPATH=os.path.join(wt, "src"), PYTHONDONTWRITEBYTECODE="1")

    def run_demo():
        p = subprocess.run(["/venv/bin/python", "-m", "pytest", "-q", "-p", "no:cacheprovider", "seed_demo_test.py"], cwd=wt, env=env, capture_output=True, text=True)
        return p.returncode == 0, (p.stdout + p.stderr)[-400:]

    ok_clean, out1 = run_demo()
    ap = subprocess.run(["git", "-C", wt, "apply", patch]).returncode == 0
    base = subprocess.run([sys.executable, os.path.join(os.path.dirname(os.path.abspath(__file__)), "baseline.py"), wt], capture_output=True, text=True)
    ok_patched, out2 = run_demo() if ap else (None, "")
    print(f"clean_demo={'pass' if ok_clean else 'fail'} apply={'ok' if ap else 'fail'} baseline={'ok' if base.returncode == 0 else 'regressions'} patched_demo={'pass' if ok_patched else 'fail'}")
    print(base.stdout.strip().splitlines()[0] if base.stdout.strip() else base.stderr[-200:])
    if not ok_clean:
        print("clean demo output:", out1)
    valid = ok_clean and ap and base.returncode == 0 and ok_patched is False
    sys.exit(0 if valid else 1)
finally:
    subprocess.run(["git", "-C", "/repo", "worktree", "remove", "--force", wt])
