#!/usr/bin/env python3
"""Regenerates /verif/MANIFEST.json from the table below (single source of truth for the manifest)."""
import json
import os

HERE = os.path.dirname(os.path.dirname(os.path.abspath(__file__)))

SYMEX = "symbolic execution of the real Python code (own z3-backed fork engine: import edges / file-existence bits / history steps are z3 atoms, the code's outcome becomes a decision-tree summary) + one z3 query per instance against a reference formula"
XH = "CrossHair (z3) symbolic execution of the real leaf function on symbolic str/int inputs against a reference postcondition"
Z3RE = "z3 regex/string theory on the patterns captured from the running code"

CHECKS = {
    "C01": dict(
        text="Bounded: for every import relation over each listed module tree (<= 5 modules quick, <= 6 thorough; 2^9..2^26 relations per instance) and every listed rule instance (12 shapes + 2 aliases, named / sub-modules-of filters, 1-3 unrelated subjects and objects, two namings) the real Rule pipeline's verdict equals the documented semantics; decided by one z3 query per instance over the decision-tree summary of the real code (unsat = holds for all relations). Nothing claimed for larger trees, related subject/object pairs, instances listed as over budget.",
        note="Trusted: the SymDiGraph stub (validated by replaying sampled paths and every model on the real NetworkxGraph), z3, the reference formula in vf/oracles/rules.py. Ambiguous edges (member of Sub(X) <-> X for 'sub modules of X' subjects) fixed to false.",
        technique=SYMEX,
        ref="4 C01",
    ),
    "C03": dict(
        text="Bounded: same space as C01; for every potential message record (each 'X imports Y'/'X is imported by Y' over ordered module pairs, each 'does not import' line per subject and object subset, each 'any module that is not' line per subject) the record appears in the real message exactly when the reference violating-set formula says it must; one z3 query per instance, both inclusions.",
        note="Trusted: as C01 plus the line grammar in vf/oracles/messages.py (an unparsable line counts as a record that must never appear).",
        technique=SYMEX,
        ref="4 C03",
    ),
    "C05": dict(
        text="Bounded: for every import relation over trees of <= 5 (quick) / <= 6 (thorough) modules, seeded samples of partitions of pairwise-unrelated modules into 2-4 layers (all-named, all-regex, mixed; modules in no layer; layers the rule does not mention), all 12 access shapes + the two any-layer aliases and 1-2 object layers, the real LayerRule verdict equals the documented layer semantics AND every potential message record (module-level lines with layer tags, layer-level \"does not import / is not imported by\" lines per subset of object layers) appears exactly when the reference violating set says so (one z3 query per instance over the decision-tree summary). Quick tier is a stratified sample that always contains layers listing several modules.",
        note="Trusted: SymDiGraph stub (validated on sampled paths and every model), z3, reference formula vf/oracles/layers.py. Regex layers are anchored alternations of the listed names.",
        technique=SYMEX,
        ref="4 C05",
    ),
    "C11": dict(
        text="Bounded: on every import relation over 4-5 module trees, each rule written with have_name_matching / have_name_containing has the same verdict as the rule naming the list of matching modules (regex family over the tree's own names, subject or object side, all 12 shapes), a never-matching regex always yields ImpossibleMatch, and batches of 2-3 subjects (all shapes) / 2-3 objects (plain should / should_not), related modules included, equal the conjunction of the single rules; each obligation is one z3 query over two or more summaries of the real code on the same symbolic relation.",
        note="Trusted: SymDiGraph stub, z3; the expansion is computed by the harness with re.match on the concrete names.",
        technique=SYMEX,
        ref="4 C11",
    ),
    "C12": dict(
        text="Bounded: duality, negation, decomposition, alias (incl. message equality) and per-variable monotonicity laws as z3 queries over two or three decision-tree summaries of the real rules on the same symbolic import relation; every ordered pair of modules of 4-5 module trees as subject / object (identical, ancestor and descendant included), both filter kinds, two-subject batches.",
        note="Trusted: SymDiGraph stub, z3. No reference semantics involved.",
        technique=SYMEX,
        ref="4 C12",
    ),
    "C13": dict(
        text="Bounded: every fluent-API call history up to length 5 (quick) / 6 (thorough) over the complete Rule (15 symbols), LayerRule (15) and DiagramRule (4) vocabularies followed by assert_applies on every import relation over a 3-module tree, plus every single deletion / duplication / transposition of every complete chain: whenever an independent specification automaton classifies the history as rejected, incomplete or contradictory, the real outcome is an error and never PASS / AssertionError (z3 query 'exists history, relation: invalid and verdict' over the decision-tree summary; history steps are n-ary symbolic choices). All 12 shapes with an unknown / too-deep / never-matching name on subject side, object side or inside a batch, also on a level_limit graph, and undefined layers: 'exists relation: not an error' is unsat. 2^6 entry-point option combinations.",
        note="Trusted: specification automata in vf/oracles/builders.py, SymDiGraph stub, z3. Histories whose object list precedes the subject but which are complete at assert time are not classified. The history dimension is an exhaustive walk driven by the symbolic executor; only the import relation is solver-quantified.",
        technique=SYMEX,
        ref="4 C13",
    ),
    "C16": dict(
        text="Bounded: every LayeredArchitecture builder history up to length 7 (quick) / 9 (thorough) over {layer(2 names), containing_modules(str | list, 3 module names sharing characters), have_modules_with_names_matching, with_layer} and every LayerRule history of that length: a call raises ImproperlyConfigured exactly where the specification automaton rejects it, and accepted definitions render exactly what was supplied in order. CrossHair kernel: two layers with symbolic module-name strings (<= 3 chars) in str or list form: second call rejected iff names equal (Confirmed over all paths).",
        note="Trusted: specification automata, CrossHair/z3. Histories are enumerated by the symbolic executor (degenerate); the string dimension is solver-quantified by the kernel.",
        technique=SYMEX + "; " + XH,
        ref="4 C16",
    ),
    "C17": dict(
        text="Bounded: CrossHair kernels on the real label function with module name, aliased module names and alias strings symbolic (well-formed dotted names <= 5 chars over {a,b,.}, one or two aliased modules, arbitrary alias characters): label = alias of the most specific aliased dotted-prefix + remainder, else the name (Confirmed over all paths). SYMEX on the real visualize() with a draw spy over 4 trees with prefix siblings: for every subset of aliased modules, alias for a missing module, presence of spacing / node_size / ax: labels keyed by exactly the node set with the reference values, KeyError naming a missing module, every other keyword reaches draw_networkx unchanged, spacing becomes pos (z3 query 'exists option set: mismatch' over the decision-tree summary).",
        note="Trusted: CrossHair/z3; draw spy replacing draw_networkx/spring_layout as module globals; alias map handed to the kernel as an association list (counterexamples confirmed through visualize(aliases=dict)). The visualize instances are an exhaustive walk over option bits (degenerate).",
        technique=XH + "; " + SYMEX,
        ref="4 C17",
    ),
    "C14": dict(
        text="Bounded: (a) CrossHair kernels with symbolic well-formed dotted names (<= 5 chars over {a,b,.}) on the places that compare raw names - layer lookup (one layer, and two layers <= 3-4 chars), batched-anything subject de-duplication, plot label - against the dotted-component predicate (Confirmed over all paths; counterexamples confirmed through LayerRule / Rule / visualize). (b) Renaming invariance by SYMEX: one abstract tree (4-5 modules) under a collision-free and an adversarial naming (a, x, xy, x_y ...) with the same symbolic import relation (variables equated per abstract pair); for every module rule (12 shapes x named/sub x every ordered module pair, related included; anything aliases; 2-subject batches incl. batched import_anything; 2-object batches) and two-layer name-listed layer rule the outcome incl. parsed message records and layer tags is equal after mapping names back: one z3 query per rule over the two decision-tree summaries.",
        note="Trusted: SymDiGraph stub (validated), CrossHair/z3 with the _create_up_to work-around (vf/kernels/_xhfix.py), message line grammar of vf/oracles/messages.py. ExternalImportFilter._is_internal_import and _get_all_internal_modules also use raw startswith; their deviation is not observable through the public API on a kernel-sized input and is exercised end-to-end by C10/C04 instead.",
        technique=XH + "; " + SYMEX,
        ref="4 C14",
    ),
    "C09": dict(
        text="Bounded: (a) CrossHair kernels: _flatten_graph_node with symbolic dotted name (<= 7 chars) and k in 0..3 returns the first k+1 components; the level adjustment for module_path below root_path adds one level per path component (Confirmed over all paths). (b) Real NetworkxGraph(all_modules, imports, k) over depth-3/4 trees (5-7 modules), every subset of 9-12 candidate file imports, k in 0..depth and None: nodes, hierarchy and import edges equal the quotient of the full relation. (c) Verdict preservation: full graph and level-k graph (real constructor with level_limit=k, import edges = OR of the full relation's variables over the preimages) over the SAME symbolic relation; for all 12 shapes + anything aliases + 2-subject batches whose named modules lie at or above level k ('sub modules of' parents strictly above), subjects and objects unrelated: one z3 query 'exists relation: outcome class differs' per rule over the two decision-tree summaries.",
        note="Trusted: SymDiGraph stubs (full and quotient; validated against the real constructor with level_limit on sampled paths and every model), CrossHair/z3. Imports from a package to its own descendants carry no variable (importers are files). Rules whose subject and object overlap are not claimed: an import inside one level-k module is dropped by the quotient by definition, so the property's consequence does not follow for them. The (b) instances are an exhaustive walk (degenerate). module_path below root_path end-to-end is in C04.",
        technique=SYMEX + "; " + XH,
        ref="4 C09",
    ),
    "C06": dict(
        text="Bounded: (re) z3 regex theory on the parser's own patterns (captured at run time from re.compile, parsed by re._parser, translated construct by construct): for lines <= 40 chars every documented arrow line (6 arrow forms x bracketed / bare / dotted references) and declaration line (3 forms, optional alias) is in the language the parser matches, the named groups of any whole-line decomposition capture exactly the drawn names, and declaration lines are never read as arrows. (unify) SYMEX on the real PumlParser().parse: 2-3 components, all pairs / sampled triples of declaration forms, identifier and dotted names; symbolic per ordered pair: arrow drawn, each end by alias or by name; parsed components and relation equal what was drawn (z3 query 'exists drawing: mismatch'). Tag slicing cases incl. missing / reversed tags -> PumlParsingError.",
        note="Trusted: z3 sequence/regex theory, the regex translator (validated on every witness and on the repository's .puml fixtures against the real re), the `open` stub of the unify instances (models re-parsed from real files). That the backtracking engine's first match consumes the whole documented line is an argument about _sre outside the solver, exercised by the unify instances and witness replays. Outside: spaces inside names, notes/packages/colours, cross-line matches of \\s+.",
        technique=Z3RE + "; " + SYMEX,
        ref="4 C06",
    ),
    "C07": dict(
        text="Bounded: for every arrow relation over 2-3 components (seeded sample over 4) in universes with a bystander module, a sub-module of a component and prefix-sibling names, both modes, and every import relation over the 4-6 modules: the real DiagramRule passes exactly when the conformance formula holds and its message holds exactly the C03 records of every violated generated rule (two z3 queries per instance over the decision-tree summary); with_base_module(p) equals writing every component as p.name (one relational query, messages included); the generated rule list for every arrow relation over 2-4 components equals the conformance specification (symbolic arrow bits); MultipleRuleApplier over 1-6 appliers with symbolic pass/fail aggregates all failing messages in order.",
        note="Trusted: SymDiGraph stub (validated), z3, reference formulas of C01/C03. Diagram files are concrete per instance (scratch directory). Full import relation for <= 4 components; 5-6 components with a symbolic window; 6 for the aggregation step.",
        technique=SYMEX,
        ref="4 C07",
    ),
    "C02": dict(
        text="Bounded: one importing file whose source is assembled per path and parsed by the real ast.parse, with a main import statement of 19 forms (plain, aliased, multi-name, from-name, from-submodule, parenthesised, star, from-root, relative levels 1-3, inside __init__, written relative to module_path's parent) at every statement-list position the running interpreter's ast grammar offers (22 slots enumerated from the node classes' signatures; all depth-1 positions x all forms, depth-2 all (thorough) / sampled (quick), seeded depth-3) plus two more statements; symbolic: presence of each statement and, for 5 candidate names, whether it is a scanned module (closed under parents). The edges of the real ImportConverter + NetworkxGraph equal the per-statement naming rule, both inclusions (z3 query 'exists presence, module set: mismatch' over the decision-tree summary). One sampled assignment per instance and every model are written as real files and scanned by get_evaluable_architecture. CrossHair kernels: relative-import resolution (names <= 7, level <= 3), parent-module enumeration, root-prefix adjustment: Confirmed over all paths.",
        note="Trusted: ast.parse (C), CrossHair/z3. The conv instances read every bit when the text and the module set are assembled (exhaustive walk, degenerate). Imports of the importing file's own ancestors are don't-care. Dynamic imports and TYPE_CHECKING conventions are outside. A statement-list slot of the interpreter's grammar without a source template is a harness error, not a skip.",
        technique=SYMEX + "; " + XH,
        ref="4 C02",
    ),
    "C04": dict(
        text="Bounded: the real get_evaluable_architecture / ..._for_module_objects over a symbolic file system of 11-14 candidate paths (packages with / without __init__.py, a/ next to ab.py and a_b/, a non-Python file, an empty directory, depth <= 5 components) with symbolic existence bits (asked lazily by the real directory walk) and symbolic presence of 2-3 candidate import lines per file (fully qualified, relative levels 1-3, written relative to module_path's parent); module_path in {r, r/a, r/a/x, r/a_b, r/a/x/y}, both entry points. On every path: modules, hierarchy and imports equal the reference; the sub-scan equals the full scan restricted to the sub-tree; decided by the z3 query 'exists file system: mismatch' over the decision-tree summary. Sampled assignments and every model are materialised as real directories and scanned by the unpatched code.",
        note="Trusted: SymFS stub (validated by materialisation), ast.parse on the concrete text of each path, z3. Imports of a file's own ancestors and imports leaving the scanned sub-tree are don't-care. Outside: symlinks, non-UTF-8 sources, b.py beside b/, deeper trees.",
        technique=SYMEX,
        ref="4 C04",
    ),
    "C08": dict(
        text="Bounded: (xh) CrossHair on the real convert_partial_match_to_regex + real re.match with pattern AND path symbolic (<= 3 chars over {a,*,.,+}; <= 2 chars over regex metacharacters) vs the glob semantics: Confirmed over all paths. (z3str) z3 string theory on the converter's AST (translated at run time, 4 paths) vs the glob semantics for every non-empty pattern and every path up to 6-7 printable ASCII characters: unsat. (walk) SYMEX on the real Parser.parse over a symbolic file system (10 candidate paths) with a SYMBOLIC exclusion predicate (one atom per path): module present iff its path exists and no ancestor-or-self path at or below module_path is excluded; excluded files never opened. (e2e) get_evaluable_architecture with 16 exclusion tuples in the four glob shapes built from names with regex metacharacters (a+b.py, c(1), x$y.py; prefix siblings ab / aab; test / mytest) and the equivalent regex_exclusions vs the unfiltered scan over every existence / import-line assignment of an 11-path tree: remaining modules and the imports among them equal the unfiltered ones restricted.",
        note="Trusted: CrossHair/z3; re.escape modelled as 'matches exactly the text' in the z3 encoding (the kernels run the real re); SymFS stub (models materialised as real directories); paths without newlines. Observation, not a finding: get_evaluable_architecture(exclusions=()) without regex_exclusions raises TypeError (None handed to the file filter); the unfiltered scan therefore uses the default exclusions.",
        technique=XH + "; " + Z3RE + " (string theory on the converter's AST); " + SYMEX,
        ref="4 C08",
    ),
    "C10": dict(
        text="Bounded: the real get_evaluable_architecture end to end on a symbolic file system: fixed internal tree (r.m, r.handlers, r.sub.k, r.subx) with symbolic presence of up to 11 import lines naming nested externals (logging, logging.handlers, os.path), externals sharing a prefix / suffix with internal names (rx.util, handlers) and internal modules; 14 configurations (exclude / include x glob and regex external-exclusion tuples incl. '*handlers', 'r*', regex 'r') x module_path in {r, r/sub}. On every path: excluded -> no module outside module_path; included -> external E present with all ancestors and its import iff some present line names it and neither E nor an ancestor matches a pattern; internal modules and imports equal those of the default configuration scanned on the same path. One z3 query 'exists line subset: mismatch' per instance over the decision-tree summary.",
        note="Trusted: SymFS stub (sampled assignments and every model materialised as real directories), ast.parse on concrete text, z3. Every line bit of an opened file is read when its text is assembled (exhaustive over line subsets).",
        technique=SYMEX,
        ref="4 C10",
    ),
    "C15": dict(
        text="Bounded: (pure) for 54 rules (module rules of all shapes, anything aliases, batches, regex subject; 13 layer rules incl. a regex layer; 2 diagram rules) on every import relation over a 4-module tree and a second 3-module architecture with fresh variables: the architecture object graph is unchanged by assert_applies, re-applying the same rule object gives the same outcome and raw message, and on the second architecture the used object gives what a fresh one gives. (history) every history of 3 evaluations over pools of 4-5 rule objects on one shared evaluable (n-ary symbolic choices): the last outcome equals a fresh evaluation. (order) all permutations of 2-3 subjects / objects / layer definitions / object layers: equal outcome and raw message text (one z3 query per pair of permutations over two summaries). (scan) two scans of a symbolic 8-path tree under independent symbolic iterdir permutations and permuted exclusion tuples: equal modules, imports, hierarchy. (ndset) set-iteration order made nondeterministic in every pytestarch module by an AST-rewriting import hook in a dedicated interpreter: verdict and message independent of the order variables. All decided by z3 queries 'exists inputs: mismatch / difference' over decision-tree summaries of the real code.",
        note="Trusted: SymDiGraph / SymFS stubs (validated by replay), z3. Purity => independence of any history length is the stated inductive argument (machine-checked at length 3). Real PYTHONHASHSEED values and real os.scandir order are modelled by symbolic permutations (sets / directories of <= 3-4 entries), not executed; sets inside networkx and the standard library are not rewritten.",
        technique=SYMEX,
        ref="4 C15",
    ),
}

NOT_YET = {}

# additions after the first complete round (DESIGN.md section 8.5); appended to the level texts above
EXT = {
    "C01": " Plus seeded larger universes (VERIF_SEED): random forests of 8-12 modules with a concrete random import relation and a window of 10-13 symbolic pairs chosen where the documented verdict is sensitive (one query per instance covers every completion of the window); windowed two-root trees whose window always holds a package's imports of its own deeper descendants; batches listing a NAMED module together with its own descendant on one side (subjects and objects still unrelated).",
    "C03": " Same additions as C01 (seeded larger universes with a symbolic window, windowed two-root trees, side-related named batches).",
    "C05": " Plus instances whose LayerRule object was first applied to another code base (one module of a multi-module regex layer missing there); six-module trees use a seeded concrete relation with a window of 13 symbolic pairs.",
    "C06": " Tag slicing additionally over symbolic token sequences (start tag, end tag - each at most once -, two arrow lines, a noise line; <= 5 / 6 tokens): exactly the arrow lines between a start tag and a following end tag are parsed, every other sequence is rejected.",
    "C08": " Pattern tuples also include wildcard-free literal paths with a prefix sibling and tuples in which one pattern's text occurs inside another; quick tier: files whose names share no two-character fragment with any pattern are always present.",
    "C09": " The end-to-end judge treats only 'package -> its direct child' as coinciding with a hierarchy edge; child -> ancestor and ancestor -> deeper descendant imports are compared.",
    "C11": " Plus lists of partial names in which one name's matches are covered by another's (both orders), and seeded larger universes (random forests of 8-12 modules, window of 10-11 symbolic pairs).",
    "C12": " Plus the transposed duality law for batches (the batch on the object side of the import-direction rule), seeded larger universes (random forests of 8-12 modules, window of 10-11 symbolic pairs, subjects / objects drawn from all modules), and - quick tier - four covering windows per instance on the two- and three-root trees (each leaves out four other pairs; thorough keeps the full relation). The batched alias law compares messages only for unrelated batch members.",
    "C13": " DiagramRule vocabulary also holds files in which both tag texts occur but no start tag is followed by an end tag.",
    "C14": " Plus the parent-module kernel (the hierarchy every 'sub module of' rests on) and a second adversarial naming (a package named like a part of the package directly above it: aab.aa.a) on trees of depth 3.",
    "C15": " Plus (scanhist) a scan under another configuration first (module_path, exclusions, regex exclusions, level_limit, externals), then a scan judged by C04's absolute reference; pool entries whose regex matches other and more modules in the second architecture; order part with object layers of mixed kind, object order and definition order both permuted.",
    "C16": " Plus READ pseudo-calls between builder calls (str, layer_mapping, a LayerRule based on the half-built object), the layer_mapping view of every accepted definition, and based_on(<architecture without layers>) in the LayerRule vocabulary.",
    "C17": " Plus one symbolic bit per aliased module (and for the missing module): the alias text is the module's own full name.",
    "C07": " Plus 5 and 6 components (the property's upper bound) end to end: seeded arrow relations, the import relation concrete where the diagram is satisfied exactly (optionally plus seeded noise) except for a window of 12 symbolic pairs around the components.",
    "C04": " A directory symlink inside the tree (both locations are directories of the tree) is modelled; SymPath also answers stat / lstat / open / read_text from the model.",
}

# round 4 additions (appended to the texts above)
EXT4 = {
    "C01": " Round 4: full batches of 3 subjects x 3 objects (and 3 x 2, 2 x 3), all pairwise unrelated, either filter kind, on a forest of six roots with one sub module each (window: one import per subject/object pair plus bystander imports); 'anything' batches listing a module together with one of its own descendants (top-most reading, inner-to-outer imports don't-care).",
    "C03": " Round 4: as C01 (3 x 3 batches, nested 'anything' batches).",
    "C02": " Round 4: end-to-end statement-pair instances on the symbolic file system: one file with up to nine import statements that spell the same module name absolutely and relatively at levels 1-3, the name existing at four places of the tree (presence of each statement and existence of each file symbolic).",
    "C04": " Round 4: scanned packages two or three levels below the root whose own name equals / is a string prefix of the directory above (r/ab/a, r/a/a, r/a/a/a) with parent-relative import spellings.",
    "C05": " Round 4: multi-module regex layers are written both as a parenthesised alternation and as a top-level alternation with every alternative anchored.",
    "C06": " Round 4: alias texts equal to the first segment of a dotted component name (of their own or of another component).",
    "C08": " Round 4: a from-import naming a package whose files alone are excluded (imports renamed by C02's naming rule are left out of the filtered-vs-unfiltered comparison), a file whose name contains a backslash; the string-theory query reports the bound it actually decided (ladder 6/5/4 on unknown).",
    "C10": " Round 4: a sibling package whose name extends module_path's (r/sub_x) with patterns matching the sibling itself; option pairs with the other option supplied as an explicit empty tuple.",
    "C11": " Round 4: regexes written like a module name (unescaped dots, optional anchors) on a universe with a look-alike module (a.x.y / a.x_y); partial names are expanded by their documented glob meaning, stated independently of the library's translation; edge-dot partial names (n.*, *.n).",
    "C12": " Round 4: all laws also on architectures BUILT by the real NetworkxGraph constructor from a symbolic list of nine candidate imports (incl. imports inside one flattened module, of an ancestor, of an unknown module) with level_limit 1 / 2 / none - exhaustive over the presence bits, decided by one query per (limit, subject).",
    "C13": " Round 4: module_path placement is a 9-ary symbolic choice (3 inside; outside: unrelated sibling, the parent, siblings whose names extend / are a prefix of the root directory's name, a directory below such a sibling); absent names inside batches (absent child of a listed present parent, absent sibling) on either side.",
    "C14": " Round 4: single-module layers also defined through the single-string form of containing_modules under both namings.",
    "C15": " Round 4: set algebra on dict views counts as an order-nondeterministic set; a windowed DiagramRule instance whose arrow sources are written by alias.",
    "C16": " Round 4: a vocabulary in which a layer is defined by a regex that is literally a module name and that name is then offered to another layer (str form, list form, inside a longer list).",
    "C17": " Round 4: a universe with look-alike names that differ from an aliased name only where it has a dot (p.a / p_a, p.a.b / p.a_b / p_a.b).",
}


def main():
    props = [json.loads(l) for l in open(os.path.join(HERE, "properties.jsonl"))]
    checks = []
    for p in props:
        pid = p["id"]
        c = CHECKS.get(pid)
        if not c:
            continue
        checks.append(
            {
                "property_id": pid,
                "quick_cmd": f"./check {pid} --tier quick",
                "thorough_cmd": f"./check {pid} --tier thorough",
                "evidence_file": f"/verif/evidence/{pid}.json",
                "replay_cmd_template": f"./check {pid} --replay {{path}}",
                "engine": c.get("engine", "vf"),
                "level_claimed": {"category": "model_checking", "text": c["text"] + EXT.get(pid, "") + EXT4.get(pid, ""), "design_ref": f"DESIGN.md section {c['ref']}"},
                "level_note": c["note"],
                "technique": c["technique"],
            }
        )
    na = []
    for p in props:
        if p["id"] not in CHECKS:
            na.append({"property_id": p["id"], "reason": NOT_YET.get(p["id"], "check not built yet in this round (planned in DESIGN.md section 4); not claimed until it runs")})
    m = {
        "version": 1,
        "setup_cmd": "./setup.sh",
        "hooks": {
            "guard": "PYTESTARCH_VERIF",
            "enable": "no source hooks: every stub is installed from outside (instance attribute, module global, constructor parameter, import hook)",
            "baseline_off_cmd": "cd /repo && /venv/bin/python -m pytest -ra -q -p no:cacheprovider --timeout=900 --continue-on-collection-errors",
            "source_commits": [],
            "add_only": True,
        },
        "engines": [
            {"name": "vf", "path": "/verif/vf", "serves_properties": sorted(CHECKS), "kind_free_text": "SYMEX fork engine over the real code + z3; CrossHair kernels; z3 regex/string encodings regenerated from the source at run time"}
        ],
        "checks": checks,
        "not_applicable": na,
        "notes": "Exit codes: 0 held / 1 replayed violation / 3 harness error or inconclusive. Known findings: /verif/known_findings.txt. Fix commits in /repo are listed there as 'fixed:' lines.",
    }
    with open(os.path.join(HERE, "MANIFEST.json"), "w") as f:
        json.dump(m, f, indent=1)
        f.write("\n")


if __name__ == "__main__":
    main()
