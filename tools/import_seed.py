#!/usr/bin/env python3
"""Keep a confirmed seeded change under /verif/seeded/<id>/.
usage: import_seed.py <id> <agent worktree dir> <round> <needs> <detected_by> [<check_strengthened>]
Runs tools/confirm_seed.py first (fresh scratch worktree; exit 0 required), then copies patch.diff and demo_test.py and
writes meta.json."""
import json, os, re, shutil, subprocess, sys

sid, src, rnd, needs, det = sys.argv[1:6]
strengthened = sys.argv[6] if len(sys.argv) > 6 else ""
V = os.path.dirname(os.path.dirname(os.path.abspath(__file__)))
p = subprocess.run([sys.executable, os.path.join(V, "tools/confirm_seed.py"), os.path.join(src, "patch.diff"), os.path.join(src, "demo_test.py")], capture_output=True, text=True)
print(p.stdout.strip())
if p.returncode != 0:
    sys.exit("not a valid seeded change: not kept")
d = os.path.join(V, "seeded", sid)
os.makedirs(d, exist_ok=True)
shutil.copy(os.path.join(src, "patch.diff"), os.path.join(d, "patch.diff"))
shutil.copy(os.path.join(src, "demo_test.py"), os.path.join(d, "demo_test.py"))
meta = {
    "id": sid,
    "round": int(rnd),
    "breaks_property": re.match(r"C\d\d", sid).group(0),
    "needs_to_manifest": needs,
    "detected_by": det,
    "origin": "written by a sub-agent that was given only the property text, the one-line descriptions of the earlier rounds' changes to avoid, and its own scratch worktree of /repo (nothing from /verif)",
    "confirmed": {"cmd": f"python3 tools/confirm_seed.py seeded/{sid}/patch.diff seeded/{sid}/demo_test.py", "expected": "clean_demo=pass apply=ok baseline=ok patched_demo=fail", "observed": p.stdout.strip().splitlines()[0]},
    "ran": f"python3 tools/seeded.py seeded/{sid}/patch.diff --ids <ids> --wt",
}
if strengthened:
    meta["check_strengthened"] = strengthened
json.dump(meta, open(os.path.join(d, "meta.json"), "w"), indent=1)
print("kept", d)
