#!/usr/bin/env python3
"""Run checks against a seeded change.

usage: seeded.py <patch.diff> [--ids C01,C03] [--tier quick] [--all]

Applies the patch to /repo (git apply), runs ./check <id> --tier <tier> for the listed ids (default: the id in
the seeded directory's name; --all: every claimed property), restores /repo (git checkout -- .) and the evidence
files, and prints one line per check:  <id> exit=<code> violations=<n> first=<text of the first violation>.
Never commits anything."""
import argparse
import json
import os
import re
import shutil
import subprocess
import sys
import tempfile

VERIF = os.path.dirname(os.path.dirname(os.path.abspath(__file__)))
REPO = "/repo"


def main() -> int:
    ap = argparse.ArgumentParser()
    ap.add_argument("patch")
    ap.add_argument("--ids", default=None)
    ap.add_argument("--tier", default="quick")
    ap.add_argument("--all", action="store_true")
    ap.add_argument("--wt", action="store_true", help="do not touch /repo: apply the patch in a scratch worktree and point the checks at it (VERIF_REPO)")
    a = ap.parse_args()
    patch = os.path.abspath(a.patch)
    if a.all:
        ids = [c["property_id"] for c in json.load(open(os.path.join(VERIF, "MANIFEST.json")))["checks"]]
    elif a.ids:
        ids = a.ids.split(",")
    else:
        m = re.search(r"(C\d\d)", patch)
        ids = [m.group(1)] if m else []
    target = REPO
    if a.wt:
        target = tempfile.mkdtemp(prefix="seedwt_", dir="/tmp")
        os.rmdir(target)
        subprocess.run(["git", "-C", REPO, "worktree", "add", "-q", "--detach", target, "HEAD"], check=True)
    elif subprocess.run(["git", "-C", REPO, "status", "--porcelain", "--untracked-files=no"], capture_output=True, text=True).stdout.strip():
        print("refusing: /repo has uncommitted changes", file=sys.stderr)
        return 2
    backup = tempfile.mkdtemp(prefix="evid_")
    shutil.copytree(os.path.join(VERIF, "evidence"), os.path.join(backup, "evidence"))
    rc = subprocess.run(["git", "-C", target, "apply", patch]).returncode
    if rc != 0:
        print("patch does not apply", file=sys.stderr)
        if a.wt:
            subprocess.run(["git", "-C", REPO, "worktree", "remove", "--force", target])
        return 2
    results = {}
    try:
        for pid in ids:
            env = dict(os.environ)
            if a.wt:
                env["VERIF_REPO"] = target
            p = subprocess.run(["./check", pid, "--tier", a.tier], cwd=VERIF, capture_output=True, text=True, env=env)
            viol = [ln for ln in p.stdout.splitlines() if ln.startswith("VIOLATION")]
            first = ""
            if viol:
                try:
                    d = json.load(open(viol[0].split("replay=")[1].strip()))
                    first = (d.get("text") or json.dumps(d.get("observed", ""))[:300])[:400]
                except Exception as e:  # noqa: BLE001
                    first = f"(unreadable replay: {e})"
            errs = [ln for ln in p.stderr.splitlines() if ln.startswith("HARNESS-ERROR")]
            results[pid] = {"exit": p.returncode, "violations": len(viol), "first": first, "harness_errors": len(errs), "first_error": errs[0][:300] if errs else ""}
            print(f"{pid} exit={p.returncode} violations={len(viol)} harness_errors={len(errs)} first={first or (errs[0][:300] if errs else '')}", flush=True)
    finally:
        if a.wt:
            subprocess.run(["git", "-C", REPO, "worktree", "remove", "--force", target])
        else:
            subprocess.run(["git", "-C", REPO, "checkout", "--", "."])
        shutil.rmtree(os.path.join(VERIF, "evidence"), ignore_errors=True)
        shutil.copytree(os.path.join(backup, "evidence"), os.path.join(VERIF, "evidence"))
        shutil.rmtree(backup, ignore_errors=True)
        shutil.rmtree(os.path.join(VERIF, "replays"), ignore_errors=True)
    print(json.dumps(results))
    return 0


if __name__ == "__main__":
    sys.exit(main())
