#!/usr/bin/env python3
"""Run checks against many seeded changes concurrently, never touching /repo or /verif/evidence.

usage: sweep.py [--seeds C01-1,C02-3 | --all] [--ids own|all|C01,C03] [--tier quick] [--par 4] [--jobs 4] [--out FILE]
                [--dir /verif/seeded]

For every seeded change <dir>/<seed>/patch.diff: a scratch worktree of /repo's HEAD is created under /tmp, the patch is
applied there, `./check <id> --tier <tier>` runs with VERIF_REPO pointing at the worktree and VERIF_EVIDENCE_DIR /
VERIF_REPLAY_DIR pointing at a scratch directory, then the worktree is removed.  'own' = the properties named by
meta.json's "detected_by" (falling back to the property in the seed's name).  Prints one line per (seed, check) and writes
the matrix as JSON.  Nothing is committed anywhere."""
import argparse
import concurrent.futures as cf
import json
import os
import re
import shutil
import subprocess
import sys
import tempfile
import time

VERIF = os.path.dirname(os.path.dirname(os.path.abspath(__file__)))
REPO = "/repo"


def ids_for(seed_dir: str, mode: str, all_ids: list[str]) -> list[str]:
    name = os.path.basename(seed_dir)
    if mode == "all":
        return all_ids
    if mode == "own":
        ids = []
        try:
            m = json.load(open(os.path.join(seed_dir, "meta.json")))
            ids = re.findall(r"C\d\d", m.get("detected_by", ""))
        except Exception:  # noqa: BLE001
            pass
        own = re.match(r"(C\d\d)", name).group(1)
        out = []
        for i in ids + [own]:
            if i not in out:
                out.append(i)
        return out
    return mode.split(",")


def run_one(seed_dir: str, ids: list[str], tier: str, jobs: int) -> dict:
    name = os.path.basename(seed_dir)
    wt = tempfile.mkdtemp(prefix=f"sweep_{name}_", dir="/tmp")
    os.rmdir(wt)
    scratch = tempfile.mkdtemp(prefix=f"sweepev_{name}_", dir="/tmp")
    res = {}
    subprocess.run(["git", "-C", REPO, "worktree", "add", "-q", "--detach", wt, "HEAD"], check=True)
    try:
        if subprocess.run(["git", "-C", wt, "apply", os.path.join(seed_dir, "patch.diff")]).returncode != 0:
            return {"_apply": "failed"}
        for pid in ids:
            env = dict(os.environ, VERIF_REPO=wt, VERIF_EVIDENCE_DIR=os.path.join(scratch, "evidence"), VERIF_REPLAY_DIR=os.path.join(scratch, "replays"), VERIF_JOBS=str(jobs))
            t0 = time.time()
            p = subprocess.run(["./check", pid, "--tier", tier], cwd=VERIF, capture_output=True, text=True, env=env)
            viol = [ln for ln in p.stdout.splitlines() if ln.startswith("VIOLATION")]
            first = ""
            if viol:
                try:
                    d = json.load(open(viol[0].split("replay=")[1].strip()))
                    first = (d.get("text") or json.dumps(d.get("observed", ""))[:300])[:300]
                except Exception as e:  # noqa: BLE001
                    first = f"(unreadable replay: {e})"
            errs = [ln for ln in p.stderr.splitlines() if ln.startswith("HARNESS-ERROR")]
            res[pid] = {"exit": p.returncode, "violations": len(viol), "harness_errors": len(errs), "first": first or (errs[0][:300] if errs else ""), "wall_s": round(time.time() - t0, 1)}
            print(f"{name} {pid} exit={p.returncode} violations={len(viol)} harness_errors={len(errs)} t={res[pid]['wall_s']} first={res[pid]['first'][:200]}", flush=True)
    finally:
        subprocess.run(["git", "-C", REPO, "worktree", "remove", "--force", wt])
        shutil.rmtree(scratch, ignore_errors=True)
    return res


def main() -> int:
    ap = argparse.ArgumentParser()
    ap.add_argument("--seeds", default=None)
    ap.add_argument("--all", action="store_true")
    ap.add_argument("--dir", default=os.path.join(VERIF, "seeded"))
    ap.add_argument("--ids", default="own")
    ap.add_argument("--tier", default="quick")
    ap.add_argument("--par", type=int, default=4)
    ap.add_argument("--jobs", type=int, default=4)
    ap.add_argument("--out", default=None)
    a = ap.parse_args()
    subprocess.run(["./setup.sh"], cwd=VERIF, check=True, capture_output=True)
    all_ids = [c["property_id"] for c in json.load(open(os.path.join(VERIF, "MANIFEST.json")))["checks"]]
    if a.seeds:
        seeds = a.seeds.split(",")
    else:
        seeds = sorted(d for d in os.listdir(a.dir) if os.path.exists(os.path.join(a.dir, d, "patch.diff")))
    matrix = {}
    with cf.ThreadPoolExecutor(a.par) as ex:
        futs = {ex.submit(run_one, os.path.join(a.dir, s), ids_for(os.path.join(a.dir, s), a.ids, all_ids), a.tier, a.jobs): s for s in seeds}
        for f in cf.as_completed(futs):
            matrix[futs[f]] = f.result()
    missed = [s for s, r in matrix.items() if not any(v.get("exit") == 1 and v.get("violations", 0) > 0 for v in r.values() if isinstance(v, dict))]
    print("MISSED:", ",".join(sorted(missed)) or "-")
    if a.out:
        json.dump(matrix, open(a.out, "w"), indent=1, sort_keys=True)
    return 0


if __name__ == "__main__":
    sys.exit(main())
