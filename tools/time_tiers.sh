#!/bin/bash
# time_tiers.sh <tier> [ids...]  - runs ./check <id> --tier <tier> one after the other, prints exit code and wall time
tier=$1; shift
ids=${@:-C01 C02 C03 C04 C05 C06 C07 C08 C09 C10 C11 C12 C13 C14 C15 C16 C17}
for i in $ids; do s=$(date +%s); timeout ${VERIF_TIER_TIMEOUT:-3600} ./check $i --tier $tier > /tmp/out_${tier}_$i.log 2>&1; rc=$?; echo "$i $tier exit=$rc wall=$(( $(date +%s)-s ))s viol=$(grep -c ^VIOLATION /tmp/out_${tier}_$i.log) herr=$(grep -c HARNESS-ERROR /tmp/out_${tier}_$i.log) $(tail -1 /tmp/out_${tier}_$i.log | grep -o 'instances=[0-9]* paths=[0-9]*.*over_budget=[0-9]*' | cut -c1-160)"; done
