#!/bin/bash
# triage_seed.sh <agentdir> <patch> <demo> <ids>   -> confirm validity then run the checks (worktree mode)
d=$1; p=$2; t=$3; ids=$4
echo "== $d/$p"
python3 /verif/tools/confirm_seed.py $d/$p $d/$t | head -2 || { echo "INVALID seed"; }
python3 /verif/tools/seeded.py $d/$p --ids $ids --wt 2>&1 | grep -v "^{" 
