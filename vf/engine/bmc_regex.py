"""Bounded encoding of regex runs over a symbolic character vector (for capture-group reasoning).

A regex AST (vf.engine.smt_regex node types) is turned into its Glushkov position automaton: one state per
character-class leaf, no epsilon transitions.  A *run* over a symbolic line c_0..c_{n-1} is a one-hot choice of
one state per position with  first / follow / last  constraints; the named group a character belongs to is a
function of the state, so "which characters does group g capture" is read off the run.  Two runs (the
documented form's and the parser's) over the same characters give the extraction obligation as one
propositional + linear query per line length n.
"""

from __future__ import annotations

import z3

from vf.engine.smt_regex import ALPHABET

_CODE = {c: i for i, c in enumerate(sorted(ALPHABET))}
NCODES = len(_CODE)


def code_of(ch: str) -> int:
    return _CODE[ch]


def char_of(code: int) -> str:
    return sorted(ALPHABET)[code]


class Glushkov:
    """leaves: list of (charset, frozenset of named groups containing the leaf)."""

    def __init__(self, ast):
        self.leaves: list = []
        self.follow: dict = {}
        self.nullable, self.first, self.last = self._build(ast, frozenset())

    def _leaf(self, chars, groups):
        self.leaves.append((frozenset(chars), groups))
        i = len(self.leaves) - 1
        self.follow[i] = set()
        return i

    def _build(self, node, groups):
        k = node[0]
        if k == "set":
            i = self._leaf(node[1], groups)
            return False, {i}, {i}
        if k == "group":
            g = groups | {node[1]} if node[1] else groups
            return self._build(node[2], g)
        if k == "cat":
            nullable, first, last = True, set(), set()
            for n in node[1]:
                nn, nf, nl = self._build(n, groups)
                for p in last:
                    self.follow[p] |= nf
                if nullable:
                    first |= nf
                last = (last | nl) if nn else set(nl)
                nullable = nullable and nn
            return nullable, first, last
        if k == "alt":
            nullable, first, last = False, set(), set()
            for n in node[1]:
                nn, nf, nl = self._build(n, groups)
                nullable = nullable or nn
                first |= nf
                last |= nl
            return nullable, first, last
        if k == "rep":
            inner, lo, hi = node[1], node[2], node[3]
            if hi is None:
                # x{lo,} == x^lo x*
                if lo <= 1:
                    nn, nf, nl = self._build(inner, groups)
                    for p in nl:
                        self.follow[p] |= nf
                    return (nn or lo == 0), nf, nl
                return self._build(("cat", [inner] * (lo - 1) + [("rep", inner, 1, None)]), groups)
            if (lo, hi) == (0, 1):
                nn, nf, nl = self._build(inner, groups)
                return True, nf, nl
            # bounded repetition: unroll
            parts = [inner] * lo + [("rep", inner, 0, 1)] * (hi - lo)
            return self._build(("cat", parts), groups)
        raise ValueError(f"cannot build automaton for {k}")


def _in_set(c, chars: frozenset):
    codes = sorted(_CODE[ch] for ch in chars if ch in _CODE)
    if not codes:
        return z3.BoolVal(False)
    if len(codes) == NCODES:
        return z3.BoolVal(True)
    runs, s, p = [], codes[0], codes[0]
    for x in codes[1:]:
        if x == p + 1:
            p = x
        else:
            runs.append((s, p))
            s = p = x
    runs.append((s, p))
    return z3.Or(*[(c == a) if a == b else z3.And(c >= a, c <= b) for a, b in runs])


def chars(n: int, tag: str = "c"):
    cs = [z3.Int(f"{tag}{i}") for i in range(n)]
    return cs, [z3.And(c >= 0, c < NCODES) for c in cs]


def run(glu: Glushkov, cs: list, tag: str):
    """(constraints, S) with S[k][p] Bool 'the run is in state p at position k'; the run consumes the whole
    vector.  For n == 0 the constraint is just nullability."""
    n = len(cs)
    if n == 0:
        return [z3.BoolVal(glu.nullable)], []
    P = range(len(glu.leaves))
    S = [[z3.Bool(f"{tag}_{k}_{p}") for p in P] for k in range(n)]
    cons = []
    for k in range(n):
        cons.append(z3.PbEq([(S[k][p], 1) for p in P], 1))
        for p in P:
            cons.append(z3.Implies(S[k][p], _in_set(cs[k], glu.leaves[p][0])))
            if k + 1 < n:
                fol = glu.follow[p]
                cons.append(z3.Implies(S[k][p], z3.Or(*[S[k + 1][q] for q in fol]) if fol else z3.BoolVal(False)))
    cons.append(z3.Or(*[S[0][p] for p in glu.first]) if glu.first else z3.BoolVal(False))
    cons.append(z3.Or(*[S[n - 1][p] for p in glu.last]) if glu.last else z3.BoolVal(False))
    return cons, S


def in_group(glu: Glushkov, S, k: int, group: str):
    ps = [p for p, (_, gs) in enumerate(glu.leaves) if group in gs]
    return z3.Or(*[S[k][p] for p in ps]) if ps else z3.BoolVal(False)


def accepts(glu: Glushkov, cs: list, tag: str):
    """Deterministic (forward reachable-set) definition of 'the whole vector is in the language': a z3 Bool that
    can be negated."""
    n = len(cs)
    if n == 0:
        return z3.BoolVal(glu.nullable)
    P = range(len(glu.leaves))
    pred = {q: [p for p in P if q in glu.follow[p]] for q in P}
    prev = [z3.And(_in_set(cs[0], glu.leaves[p][0])) if p in glu.first else z3.BoolVal(False) for p in P]
    for k in range(1, n):
        cur = []
        for q in P:
            srcs = [prev[p] for p in pred[q]]
            cur.append(z3.And(_in_set(cs[k], glu.leaves[q][0]), z3.Or(*srcs)) if srcs else z3.BoolVal(False))
        prev = cur
    return z3.Or(*[prev[p] for p in glu.last]) if glu.last else z3.BoolVal(False)


def model_line(model, cs) -> str:
    return "".join(char_of(model.eval(c, model_completion=True).as_long()) for c in cs)


def captured(model, glu: Glushkov, S, cs, group: str) -> str:
    out = []
    for k in range(len(cs)):
        for p, (_, gs) in enumerate(glu.leaves):
            if group in gs and z3.is_true(model.eval(S[k][p], model_completion=True)):
                out.append(char_of(model.eval(cs[k], model_completion=True).as_long()))
    return "".join(out)
