"""Builder-history harness: a history is a sequence of n-ary symbolic choices over a vocabulary of real
fluent-API calls; the specification automaton runs next to the real object on every path."""

from __future__ import annotations

from dataclasses import dataclass
from typing import Any, Callable

from vf.engine.symex import ENGINE
from vf.oracles.builders import NOARG


@dataclass(frozen=True)
class Sym:
    name: str
    arg: Any = NOARG

    def show(self) -> str:
        return f"{self.name}({'' if self.arg is NOARG or self.arg == NOARG else repr(self.arg)})"


def call(obj, sym: Sym, resolve: Callable[[Any], Any] = lambda a: a):
    if sym.name == "APPLY":
        # an application in the middle of a history: a verdict (normal return or AssertionError) does not end it
        try:
            obj.assert_applies(resolve(sym.arg))
        except AssertionError:
            pass
        return None
    if sym.name == "READ":
        # an observation in the middle of a history (reads only; whatever it returns is ignored here)
        resolve(("READ", obj))
        return None
    m = getattr(obj, sym.name)
    if sym.arg is NOARG or sym.arg == NOARG:
        return m()
    return m(resolve(sym.arg))


def play(
    seq_or_len,
    vocab: list[Sym],
    make_obj: Callable[[], Any],
    make_aut: Callable[[], Any],
    finish: Callable[[Any], tuple] | None,
    resolve: Callable[[Any], Any] = lambda a: a,
    prefix: tuple = (),
    tag: str = "h",
):
    """Runs one history.  seq_or_len: a concrete list of Syms, or an int L (symbolic history of length <= L
    drawn by ENGINE.choice; choice 0 = stop).  prefix: concrete Syms played before the symbolic part.
    Returns (history, expectations, real) where
      expectations = list of (index, 'REJECT'|'LOOKUP') from the automaton, plus its final class
      real = ('RAISED', index, exception type) | finish(obj) result | ('BUILT',)"""
    obj = make_obj()
    aut = make_aut()
    hist: list[Sym] = []
    expects: list = []
    real = None

    def one(sym: Sym) -> bool:
        nonlocal obj, real
        i = len(hist)
        hist.append(sym)
        a = aut.step(sym.name, sym.arg)
        if a is not None:
            expects.append((i, a))
        try:
            r = call(obj, sym, resolve)
            if r is not None:
                obj = r
        except Exception as e:  # noqa: BLE001 - errors are outcomes
            real = ("RAISED", i, type(e).__name__)
            return False
        return True

    ok = True
    for s in prefix:
        if not one(s):
            ok = False
            break
    if ok:
        if isinstance(seq_or_len, int):
            n = 0
            while n < seq_or_len:
                c = ENGINE.choice((tag, n), len(vocab) + 1)
                if c == 0:
                    break
                if not one(vocab[c - 1]):
                    break
                n += 1
        else:
            for s in seq_or_len:
                if not one(s):
                    break
    if real is None:
        real = finish(obj) if finish is not None else ("BUILT",)
    final = aut.final() if hasattr(aut, "final") else None
    return hist, expects, final, real, obj, aut
