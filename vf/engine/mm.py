"""Helper for harnesses whose leaf outcome already is a comparison against the oracle on that path
('OK', ...) / ('MISMATCH', want, got): the property is the single z3 query
    exists inputs.  outcome(inputs) is a MISMATCH
over the decision-tree summary; a model is completed to a full input, replayed on the real stack through
the public API and only then reported."""

from __future__ import annotations

from typing import Callable

from vf.engine.rulesym import explore_fn, solver, solver_delta
from vf.engine.symex import VarPool


def check_no_mismatch(
    label: str,
    fn: Callable[[], tuple],
    cap: int,
    make_payload: Callable[[dict], dict],
    replay_detail: Callable[[dict], tuple],
    all_keys: list[tuple] = (),
    is_bad: Callable[[tuple], bool] = lambda o: o[0] == "MISMATCH",
    sample: dict | None = None,
    degenerate: bool | None = None,
    max_models: int = 3,
) -> dict:
    """all_keys: (key, arity) of every symbolic input of the instance (also those no path inspects)."""
    before = solver().stats()
    summ, funcs, over = explore_fn(fn, cap)
    res = {"label": label, "functions": funcs, "variables_total": len(all_keys), "errors": [], "violations": [], "replays": 0}
    if over:
        res.update({"over_budget": True, "paths": cap})
        return res
    pool = VarPool()
    for k, ar in all_keys:
        pool(k, ar)
    for k, ar in summ.keys_seen.items():
        pool(k, ar)
    res["variables_total"] = len(pool.vars)
    bad = summ.formula(is_bad, pool)
    res.update({"paths": summ.paths, "forks": summ.forks, "explore_s": summ.explore_s, "dont_care_vars": len(pool.vars) - len(summ.keys_in_tree())})
    nvars = len(pool.vars)
    res["degenerate"] = degenerate if degenerate is not None else (nvars > 0 and summ.paths >= (1 << min(nvars, 60)))
    s = dict(sample or {})
    s.update({"instance": label, "paths": summ.paths, "vars": nvars, "outcome_classes": sorted({str(o[0]) for o in summ.outcomes()})})
    if summ.sample_paths:
        a, o = summ.sample_paths[0]
        s["path_assignment"] = {str(k): v for k, v in list(a.items())[:12]}
        s["path_outcome"] = [str(x)[:200] for x in o]
    res["samples"] = [s]
    import z3

    block = []
    for _ in range(max_models):
        st, model = solver().check(*pool.domain, bad, *block)
        if st == "unsat":
            break
        if st == "unknown":
            res["errors"].append(f"solver unknown on {label}")
            break
        assign = pool.model_to_assign(model)
        leaf = summ.evaluate(assign)
        payload = make_payload(assign)
        payload.setdefault("label", label)
        ok, text, detail = replay_detail(payload)
        res["replays"] += 1
        if ok:
            res["errors"].append(f"non-reproducing counterexample (encoding or stub wrong): {label}: summary leaf {str(leaf)[:300]}; replay: {text[:300]}")
            break
        payload["observed"] = detail
        payload["text"] = text
        payload.setdefault("signature", {k: v for k, v in payload.items() if k not in ("observed", "text")})
        res["violations"].append(payload)
        # ask for a model with a different bad leaf
        block.append(z3.Not(summ.formula(lambda o, leaf=leaf: o == leaf, pool)))
    res.update(solver_delta(before))
    return res
