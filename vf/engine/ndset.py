"""NDSet: a set whose iteration order is an arbitrary permutation chosen by the symbolic engine.

Stands in for every ``set(...)`` / set display / set comprehension of the pytestarch sources (see
ndset_loader.py).  Membership, length, algebra and ``sorted`` do not fork; iterating a set of 2..MAXN elements
forks over all n! orders (``ENGINE.choice``); larger sets iterate in insertion order (outside the bound).
This over-approximates hash-seed dependent iteration order."""

from __future__ import annotations

import itertools

from vf.engine.symex import ENGINE

MAXN = 3
_COUNTER = [0]
_PERMS = {n: list(itertools.permutations(range(n))) for n in range(2, MAXN + 1)}


def reset() -> None:
    _COUNTER[0] = 0


def _items_of(it):
    if isinstance(it, NDSet):
        return list(it._items)
    return list(it)


class NDSet:
    __slots__ = ("_items", "_set")
    __hash__ = None  # type: ignore

    def __init__(self, it=()):
        self._items = []
        self._set = set()
        for x in _items_of(it):
            self.add(x)

    def __class_getitem__(cls, item):
        return cls

    # -- mutation -----------------------------------------------------------------------------------
    def add(self, x):
        if x not in self._set:
            self._set.add(x)
            self._items.append(x)

    def update(self, *others):
        for o in others:
            for x in _items_of(o):
                self.add(x)

    def remove(self, x):
        self._set.remove(x)
        self._items.remove(x)

    def discard(self, x):
        if x in self._set:
            self.remove(x)

    def pop(self):
        if not self._items:
            raise KeyError("pop from an empty set")
        order = list(self)
        x = order[0]
        self.remove(x)
        return x

    def clear(self):
        self._items.clear()
        self._set.clear()

    # -- queries that do not depend on order ------------------------------------------------------------
    def __len__(self):
        return len(self._items)

    def __bool__(self):
        return bool(self._items)

    def __contains__(self, x):
        return x in self._set

    def __eq__(self, other):
        if isinstance(other, NDSet):
            return self._set == other._set
        if isinstance(other, (set, frozenset)):
            return self._set == other
        return NotImplemented

    def __ne__(self, other):
        r = self.__eq__(other)
        return r if r is NotImplemented else not r

    def __repr__(self):
        return "NDSet(" + repr(sorted(self._items, key=repr)) + ")"

    def copy(self):
        return NDSet(self)

    def _bin(self, other, keep_self, keep_other):
        o = NDSet(other) if not isinstance(other, NDSet) else other
        out = NDSet()
        for x in self._items:
            if keep_self(x in o._set):
                out.add(x)
        for x in o._items:
            if x not in self._set and keep_other:
                out.add(x)
        return out

    def union(self, *others):
        out = NDSet(self)
        out.update(*others)
        return out

    def __or__(self, other):
        return self.union(other)

    __ror__ = __or__

    def intersection(self, *others):
        out = NDSet(self)
        for o in others:
            os_ = set(_items_of(o))
            out = NDSet(x for x in out._items if x in os_)
        return out

    def __and__(self, other):
        return self.intersection(other)

    __rand__ = __and__

    def difference(self, *others):
        out = NDSet(self)
        for o in others:
            os_ = set(_items_of(o))
            out = NDSet(x for x in out._items if x not in os_)
        return out

    def __sub__(self, other):
        return self.difference(other)

    def __rsub__(self, other):
        return NDSet(other).difference(self)

    def symmetric_difference(self, other):
        o = NDSet(other)
        return self.difference(o).union(o.difference(self))

    __xor__ = symmetric_difference

    def __ior__(self, other):
        self.update(other)
        return self

    def __isub__(self, other):
        for x in _items_of(other):
            self.discard(x)
        return self

    def __iand__(self, other):
        os_ = set(_items_of(other))
        for x in list(self._items):
            if x not in os_:
                self.remove(x)
        return self

    def issubset(self, other):
        return self._set <= set(_items_of(other))

    def issuperset(self, other):
        return self._set >= set(_items_of(other))

    def isdisjoint(self, other):
        return self._set.isdisjoint(set(_items_of(other)))

    __le__ = issubset
    __ge__ = issuperset

    def __lt__(self, other):
        return self._set < set(_items_of(other))

    def __gt__(self, other):
        return self._set > set(_items_of(other))

    # -- the order-dependent operation ---------------------------------------------------------------
    def __iter__(self):
        items = list(self._items)
        n = len(items)
        if n <= 1 or n > MAXN:
            return iter(items)
        k = _COUNTER[0]
        _COUNTER[0] += 1
        perm = _PERMS[n][ENGINE.choice(("nd", k, n), len(_PERMS[n]))]
        return iter([items[i] for i in perm])


def nd_sorted(it, **kw):
    """sorted() that does not fork on the iteration order of an NDSet - unless the sort key TIES two different
    elements: a stable sort then keeps them in the order of the input, i.e. in the set's iteration order."""
    res = sorted(_items_of(it), **kw)
    key = kw.get("key")
    if key is not None and isinstance(it, NDSet):
        try:
            tie = any(key(a) == key(b) and a != b for a, b in zip(res, res[1:]))
        except Exception:  # noqa: BLE001
            tie = False
        if tie:
            return sorted(list(it), **kw)
    return res
