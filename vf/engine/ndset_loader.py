"""Import hook: loads every ``pytestarch`` module from its CURRENT source with ``set(...)``, set displays, set
comprehensions and ``sorted(...)`` rewritten to the nondeterministic NDSet (vf/engine/ndset.py).

Must be installed before pytestarch is imported, hence it is used in a dedicated interpreter
(vf/engine/ndset_worker.py).  Injected names do not start with a double underscore (class-private mangling)."""

from __future__ import annotations

import ast
import importlib.abc
import importlib.machinery
import sys

REWRITTEN: dict = {}


class _Rewrite(ast.NodeTransformer):
    def __init__(self):
        self.count = 0

    def visit_Name(self, node):
        if isinstance(node.ctx, ast.Load) and node.id == "set":
            self.count += 1
            return ast.copy_location(ast.Name("_vf_ndset", ast.Load()), node)
        if isinstance(node.ctx, ast.Load) and node.id == "sorted":
            self.count += 1
            return ast.copy_location(ast.Name("_vf_sorted", ast.Load()), node)
        return node

    def visit_BinOp(self, node):
        # set algebra on dict views (a.keys() & b.keys(), a.items() - b.items(), ...) yields a real set whose
        # iteration order follows the hash seed as well
        self.generic_visit(node)

        def is_view(n):
            return isinstance(n, ast.Call) and isinstance(n.func, ast.Attribute) and n.func.attr in ("keys", "items") and not n.args

        if isinstance(node.op, (ast.BitAnd, ast.BitOr, ast.Sub, ast.BitXor)) and (is_view(node.left) or is_view(node.right)):
            self.count += 1
            return ast.copy_location(ast.Call(ast.Name("_vf_ndset", ast.Load()), [node], []), node)
        return node

    def visit_Set(self, node):
        self.generic_visit(node)
        self.count += 1
        return ast.copy_location(ast.Call(ast.Name("_vf_ndset", ast.Load()), [ast.List(node.elts, ast.Load())], []), node)

    def visit_SetComp(self, node):
        self.generic_visit(node)
        self.count += 1
        return ast.copy_location(ast.Call(ast.Name("_vf_ndset", ast.Load()), [ast.ListComp(node.elt, node.generators)], []), node)


class NDLoader(importlib.machinery.SourceFileLoader):
    def get_code(self, fullname):
        path = self.get_filename(fullname)
        return self.source_to_code(self.get_data(path), path)

    def source_to_code(self, data, path, *, _optimize=-1):
        tree = ast.parse(data, filename=path)
        rw = _Rewrite()
        tree = rw.visit(tree)
        inject = ast.parse("from vf.engine.ndset import NDSet as _vf_ndset, nd_sorted as _vf_sorted").body
        pos = 0
        body = tree.body
        if body and isinstance(body[0], ast.Expr) and isinstance(getattr(body[0], "value", None), ast.Constant) and isinstance(body[0].value.value, str):
            pos = 1
        while pos < len(body) and isinstance(body[pos], ast.ImportFrom) and body[pos].module == "__future__":
            pos += 1
        tree.body = body[:pos] + inject + body[pos:]
        ast.fix_missing_locations(tree)
        REWRITTEN[path] = rw.count
        return compile(tree, path, "exec", dont_inherit=True, optimize=_optimize)


class NDFinder(importlib.abc.MetaPathFinder):
    def find_spec(self, fullname, path, target=None):
        if fullname != "pytestarch" and not fullname.startswith("pytestarch."):
            return None
        spec = importlib.machinery.PathFinder.find_spec(fullname, path)
        if spec is not None and spec.origin and spec.origin.endswith(".py"):
            spec.loader = NDLoader(fullname, spec.origin)
        return spec


def install() -> None:
    if any(m == "pytestarch" or m.startswith("pytestarch.") for m in sys.modules):
        raise RuntimeError("pytestarch is already imported: the NDSet loader must be installed first")
    sys.meta_path.insert(0, NDFinder())
