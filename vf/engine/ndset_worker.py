"""Dedicated interpreter for the set-order part of C15:  python -m vf.engine.ndset_worker '<json instance>'

Installs the NDSet import hook, loads pytestarch from its current source, explores the real rule pipeline on a
symbolic import relation where every pytestarch set iterates in a symbolic order, and decides with one z3 query
    exists e, o, o'.  outcome(e, o) != outcome(e, o')
whether the verdict / message depends on an order variable.  Prints one JSON result line."""

from __future__ import annotations

import json
import sys


def main() -> int:
    inst = json.loads(sys.argv[1])
    from vf.engine import ndset_loader

    ndset_loader.install()
    import z3

    from vf.engine import ndset
    from vf.engine.rulesym import SymArch, explore_fn, solver
    from vf.engine.symex import VarPool
    from vf.props import c15

    nodes = inst["nodes"]
    desc = tuple(inst["rule"])
    if inst.get("window"):
        arch = SymArch(nodes, tag="e", window=[tuple(p) for p in inst["window"]], background=[tuple(p) for p in inst.get("background", [])])
    else:
        arch = SymArch(nodes, tag="e")

    def fn():
        ndset.reset()
        return c15.evaluate_raw(c15.make_rule(desc), arch.ev)

    summ, funcs, over = explore_fn(fn, inst["cap"])
    res = {"label": inst["label"], "errors": [], "violations": [], "replays": 0, "functions": sorted(funcs), "variables_total": len(arch.pairs),
           "rewritten_sites": sum(ndset_loader.REWRITTEN.values()), "rewritten_modules": len(ndset_loader.REWRITTEN)}
    if not ndset_loader.REWRITTEN or res["rewritten_sites"] < 20:
        res["errors"].append(f"NDSet loader rewrote only {res['rewritten_sites']} sites in {len(ndset_loader.REWRITTEN)} modules: hook not effective")
    if over:
        res.update({"over_budget": True, "paths": inst["cap"]})
        print(json.dumps(res))
        return 0
    nd_keys = {k: ar for k, ar in summ.keys_seen.items() if k[0] == "nd"}
    pool1 = arch.pool
    pool2 = VarPool(tag="prime_")

    def var2(key, arity=2):
        return pool2(key, arity) if key[0] == "nd" else pool1(key, arity)

    for k, ar in summ.keys_seen.items():
        pool1(k, ar)
        var2(k, ar)
    outs = summ.outcomes()
    diff = [z3.And(summ.formula(lambda o, O=O: o == O, pool1), z3.Not(summ.formula(lambda o, O=O: o == O, var2))) for O in outs]
    st, model = solver().check(*pool1.domain, *pool2.domain, z3.Or(*diff)) if len(outs) > 1 else ("unsat", None)
    res.update({"paths": summ.paths, "forks": summ.forks, "explore_s": summ.explore_s, "order_variables": len(nd_keys), "distinct_outcomes": len(outs),
                "dont_care_vars": len(arch.pairs) - len([k for k in summ.keys_in_tree() if k[0] == "e"]), "order_vars_in_reduced_tree": len([k for k in summ.keys_in_tree() if k[0] == "nd"])})
    if st == "unknown":
        res["errors"].append("solver unknown")
    elif st == "sat":
        a1 = pool1.model_to_assign(model)
        a2 = dict(a1)
        a2.update({k: v for k, v in pool2.model_to_assign(model).items()})
        o1, o2 = summ.evaluate(a1), summ.evaluate({k: (a2[k] if k[0] == "nd" else a1.get(k, 0)) for k in set(a1) | set(a2)})
        res["dependence"] = {"edges": arch.edges_of(a1), "outcome_order_1": repr(o1)[:400], "outcome_order_2": repr(o2)[:400]}
    s = solver().stats()
    res.update({k: s[k] for k in ("queries", "queries_unsat", "queries_sat", "queries_unknown", "solver_s")})
    if summ.sample_paths:
        a, o = summ.sample_paths[0]
        res["samples"] = [{"instance": inst["label"], "path_edges": arch.edges_of(a), "order_choices_on_path": {str(k): v for k, v in a.items() if k[0] == "nd"}, "outcome": repr(o)[:160], "paths": summ.paths}]
    print(json.dumps(res))
    return 0


if __name__ == "__main__":
    sys.exit(main())
