"""Shared plumbing for 'real rule on a symbolic import relation' harnesses (C01, C03, C05, C07, C11, C12 ...)."""

from __future__ import annotations

import random
from typing import Callable

import z3

from vf.engine.runner import FunctionRecorder, seed
from vf.engine.stubs_graph import real_architecture, symbolic_architecture
from vf.engine.symex import ENGINE, OverBudget, Solver, Summary, VarPool, explore

_SOLVER: Solver | None = None


def solver() -> Solver:
    global _SOLVER
    if _SOLVER is None:
        _SOLVER = Solver()
    return _SOLVER


def solver_delta(before: dict) -> dict:
    now = solver().stats()
    return {k: (now[k] - before.get(k, 0)) for k in now}


class SymArch:
    """A module universe with one symbolic import relation, a var pool and helpers."""

    def __init__(self, nodes: list[str], tag: str = "e", extra_no_var=(), level_limit=None, window=None, background=()) -> None:
        """window / background (large universes): only the ordered pairs in ``window`` carry a symbolic atom; every
        other pair is concrete - an import iff it is listed in ``background``.  The reference formulas then see
        z3 constants for the concrete pairs, so one query still quantifies over every relation that agrees with the
        background outside the window."""
        self.nodes = list(nodes)
        self.tag = tag
        edge_fn = None
        self.window = None
        if window is not None:
            win = {tuple(p) for p in window}
            bg = {tuple(p) for p in background} - win
            self.window, self._bg = win, bg

            def edge_fn(x, y, _win=win, _bg=bg, _tag=tag):
                if (x, y) in _win:
                    return ENGINE.branch((_tag, x, y)) == 1
                return (x, y) in _bg

        self.ev, self.sym = symbolic_architecture(self.nodes, tag=tag, edge_fn=edge_fn, no_var=extra_no_var, level_limit=level_limit)
        self.pool = VarPool()
        self.all_pairs = self.sym.var_pairs()
        self.pairs = self.all_pairs if self.window is None else [p for p in self.all_pairs if p in self.window]
        self.pairset = set(self.all_pairs)
        self.background = [] if self.window is None else [p for p in self.all_pairs if p in self._bg]
        for p in self.pairs:
            self.var(*p)

    def var(self, x: str, y: str):
        if self.window is not None and (x, y) not in self.window:
            return z3.BoolVal((x, y) in self._bg)
        return self.pool((self.tag, x, y))

    def usable(self, p) -> bool:
        return p in self.pairset

    def edges_of(self, assign: dict) -> list[tuple[str, str]]:
        return [(x, y) for (x, y) in self.pairs if assign.get((self.tag, x, y), 0) == 1] + list(self.background)

    def model_edges(self, model) -> list[tuple[str, str]]:
        return [(x, y) for (x, y) in self.pairs if z3.is_true(model.eval(self.var(x, y), model_completion=True))] + list(self.background)

    def real(self, edges):
        return real_architecture(self.nodes, edges)


def explore_fn(fn: Callable[[], object], max_paths: int, record_functions: bool = True):
    """Explore; returns (summary | None, functions, over_budget)."""
    funcs: set[str] = set()
    if record_functions:
        # first path under the profiler (engine state: fresh path, all-default decisions)
        ENGINE.prefix, ENGINE.trace, ENGINE.assign = [], [], {}
        with FunctionRecorder() as rec:
            try:
                fn()
            except BaseException:  # noqa: BLE001
                pass
        funcs = rec.names
    try:
        summ = explore(fn, max_paths, sample_every=997)
    except OverBudget:
        return None, funcs, True
    return summ, funcs, False


def validate_samples(summ: Summary, arch: SymArch, concrete_fn: Callable[[list], object], k: int = 3, norm=lambda o: o) -> tuple[int, list[str]]:
    """Stub validation: re-run up to k explored paths on the real stack (real NetworkxGraph built from the
    path's edge assignment, unvisited edges chosen at random by VERIF_SEED) and compare outcomes."""
    rnd = random.Random(seed() * 7919 + len(arch.pairs))
    errs: list[str] = []
    n = 0
    paths = summ.sample_paths
    if len(paths) > k:
        paths = rnd.sample(paths, k)
    for assign, outcome in paths:
        full = dict(assign)
        for p in arch.pairs:
            key = (arch.tag, p[0], p[1])
            if key not in full:
                full[key] = rnd.randint(0, 1)
        expect = summ.evaluate(full)
        edges = arch.edges_of(full)
        got = concrete_fn(edges)
        n += 1
        if norm(got) != norm(expect):
            errs.append(f"stub divergence: edges={edges} summary={expect} real={got}")
    return n, errs


class RuleLab:
    """Several rules on ONE symbolic architecture: summaries share the same z3 variables, so relational
    properties (C09, C11, C12, C14, C15) are single queries over two or three summaries."""

    def __init__(self, nodes, cap: int, with_message: bool = False, tag: str = "e", window=None, background=()) -> None:
        from vf.universes import build_rule, evaluate

        self.arch = SymArch(nodes, tag=tag, window=window, background=background)
        self.cap = cap
        self.with_message = with_message
        self._cache: dict = {}
        self.paths = 0
        self.forks = 0
        self.explore_s = 0.0
        self.functions: set = set()
        self.over_budget: list = []
        self._build_rule = build_rule
        self._evaluate = evaluate
        self.tree_keys: set = set()
        self.validate = 1  # sampled paths per summary replayed on the real NetworkxGraph
        self.replays = 0
        self.errs: list = []

    def summary(self, spec, builder=None):
        """Summary of build_rule(spec) (or builder()) on the symbolic architecture; None if over budget."""
        key = spec if builder is None else ("custom", spec)
        if key in self._cache:
            return self._cache[key]
        mk = builder or (lambda: self._build_rule(spec))
        ev = self.arch.ev
        wm = self.with_message

        def fn():
            return self._evaluate(mk(), ev, with_message=wm)

        summ, funcs, over = explore_fn(fn, self.cap, record_functions=not self.functions)
        self.functions |= funcs
        if over:
            self.paths += self.cap
            self.over_budget.append(str(spec))
            self._cache[key] = None
            return None
        self.paths += summ.paths
        self.forks += summ.forks
        self.explore_s += summ.explore_s
        self.tree_keys |= summ.keys_in_tree()
        self._cache[key] = summ
        if self.validate:
            wm = self.with_message
            n, errs = validate_samples(summ, self.arch, lambda edges: self._evaluate(mk(), self.arch.real(edges), with_message=wm), k=self.validate)
            self.replays += n
            self.errs.extend(errs)
        return summ

    def passes(self, summ):
        return summ.formula(lambda o: o[0] == "PASS", self.arch.pool)

    def fails(self, summ):
        return summ.formula(lambda o: o[0] == "FAIL", self.arch.pool)

    def errors(self, summ):
        return summ.formula(lambda o: o[0] == "ERROR", self.arch.pool)

    def stats(self) -> dict:
        return {
            "paths": self.paths,
            "forks": self.forks,
            "explore_s": self.explore_s,
            "functions": self.functions,
            "variables_total": len(self.arch.pairs),
            "dont_care_vars": len(self.arch.pairs) - len(self.tree_keys),
            "replays": self.replays,
            "errors": list(self.errs),
        }
