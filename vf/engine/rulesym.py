"""Shared plumbing for 'real rule on a symbolic import relation' harnesses (C01, C03, C05, C07, C11, C12 ...)."""

from __future__ import annotations

import random
from typing import Callable

import z3

from vf.engine.runner import FunctionRecorder, seed
from vf.engine.stubs_graph import real_architecture, symbolic_architecture
from vf.engine.symex import ENGINE, OverBudget, Solver, Summary, VarPool, explore

_SOLVER: Solver | None = None


def solver() -> Solver:
    global _SOLVER
    if _SOLVER is None:
        _SOLVER = Solver()
    return _SOLVER


def solver_delta(before: dict) -> dict:
    now = solver().stats()
    return {k: (now[k] - before.get(k, 0)) for k in now}


class SymArch:
    """A module universe with one symbolic import relation, a var pool and helpers."""

    def __init__(self, nodes: list[str], tag: str = "e", extra_no_var=(), level_limit=None) -> None:
        self.nodes = list(nodes)
        self.tag = tag
        self.ev, self.sym = symbolic_architecture(self.nodes, tag=tag, no_var=extra_no_var, level_limit=level_limit)
        self.pool = VarPool()
        self.pairs = self.sym.var_pairs()
        self.pairset = set(self.pairs)
        for p in self.pairs:
            self.var(*p)

    def var(self, x: str, y: str):
        return self.pool((self.tag, x, y))

    def usable(self, p) -> bool:
        return p in self.pairset

    def edges_of(self, assign: dict) -> list[tuple[str, str]]:
        return [(x, y) for (x, y) in self.pairs if assign.get((self.tag, x, y), 0) == 1]

    def model_edges(self, model) -> list[tuple[str, str]]:
        return [(x, y) for (x, y) in self.pairs if z3.is_true(model.eval(self.var(x, y), model_completion=True))]

    def real(self, edges):
        return real_architecture(self.nodes, edges)


def explore_fn(fn: Callable[[], object], max_paths: int, record_functions: bool = True):
    """Explore; returns (summary | None, functions, over_budget)."""
    funcs: set[str] = set()
    if record_functions:
        # first path under the profiler (engine state: fresh path, all-default decisions)
        ENGINE.prefix, ENGINE.trace, ENGINE.assign = [], [], {}
        with FunctionRecorder() as rec:
            try:
                fn()
            except BaseException:  # noqa: BLE001
                pass
        funcs = rec.names
    try:
        summ = explore(fn, max_paths, sample_every=997)
    except OverBudget:
        return None, funcs, True
    return summ, funcs, False


def validate_samples(summ: Summary, arch: SymArch, concrete_fn: Callable[[list], object], k: int = 3, norm=lambda o: o) -> tuple[int, list[str]]:
    """Stub validation: re-run up to k explored paths on the real stack (real NetworkxGraph built from the
    path's edge assignment, unvisited edges chosen at random by VERIF_SEED) and compare outcomes."""
    rnd = random.Random(seed() * 7919 + len(arch.pairs))
    errs: list[str] = []
    n = 0
    paths = summ.sample_paths
    if len(paths) > k:
        paths = rnd.sample(paths, k)
    for assign, outcome in paths:
        full = dict(assign)
        for p in arch.pairs:
            key = (arch.tag, p[0], p[1])
            if key not in full:
                full[key] = rnd.randint(0, 1)
        expect = summ.evaluate(full)
        edges = arch.edges_of(full)
        got = concrete_fn(edges)
        n += 1
        if norm(got) != norm(expect):
            errs.append(f"stub divergence: edges={edges} summary={expect} real={got}")
    return n, errs
