"""Common driver: instance pools, evidence, replay files, known findings, exit codes.

Exit codes: 0 held on everything explored (KNOWN-FINDING lines may be printed) · 1 replayed violation outside
the known classes · 3 harness error / inconclusive (never reported as success, never as a violation).
"""

from __future__ import annotations

import hashlib
import json
import multiprocessing as mp
import os
import sys
import time
import traceback
from dataclasses import dataclass, field
from typing import Any, Callable

VERIF = os.path.dirname(os.path.dirname(os.path.dirname(os.path.abspath(__file__))))
KNOWN_FILE = os.path.join(VERIF, "known_findings.txt")


def seed() -> int:
    try:
        return int(os.environ.get("VERIF_SEED", "0"))
    except ValueError:
        return 0


def jobs() -> int:
    try:
        return max(1, int(os.environ.get("VERIF_JOBS", str(os.cpu_count() or 4))))
    except ValueError:
        return 4


# ---------------------------------------------------------------------------------------------------
# known findings


@dataclass
class Known:
    prop: str
    cls: str
    text: str


def load_known(prop: str) -> dict[str, Known]:
    out: dict[str, Known] = {}
    if not os.path.exists(KNOWN_FILE):
        return out
    for line in open(KNOWN_FILE, encoding="utf-8"):
        line = line.strip()
        if not line.startswith("finding:"):
            continue
        parts = line[len("finding:"):].strip().split(None, 2)
        kv = dict(p.split("=", 1) for p in parts[:2] if "=" in p)
        if kv.get("property") == prop and "class" in kv:
            out[kv["class"]] = Known(prop, kv["class"], parts[2] if len(parts) > 2 else "")
    return out


# ---------------------------------------------------------------------------------------------------
# result accumulation


@dataclass
class Report:
    prop: str
    tier: str
    t0: float = field(default_factory=time.time)
    instances: int = 0
    paths: int = 0
    forks: int = 0
    variables_total: int = 0
    dont_care_vars: int = 0
    concrete_inputs_covered_log2: float = 0.0
    queries: int = 0
    queries_unsat: int = 0
    queries_sat: int = 0
    queries_unknown: int = 0
    solver_s: float = 0.0
    explore_s: float = 0.0
    replays: int = 0
    functions: set = field(default_factory=set)
    samples: list = field(default_factory=list)
    skipped_over_budget: list = field(default_factory=list)
    violations: list = field(default_factory=list)  # dicts with 'replay' payload
    known_hits: dict = field(default_factory=dict)  # class -> example
    errors: list = field(default_factory=list)
    kernels: list = field(default_factory=list)
    extra: dict = field(default_factory=dict)
    bounds: dict = field(default_factory=dict)
    assumptions: list = field(default_factory=list)
    stubs: list = field(default_factory=list)
    degenerate_instances: int = 0

    def absorb(self, r: dict) -> None:
        """r: per-instance result dict produced by a worker."""
        self.instances += 1
        for k in ("paths", "forks", "variables_total", "dont_care_vars", "queries", "queries_unsat", "queries_sat", "queries_unknown", "replays"):
            setattr(self, k, getattr(self, k) + int(r.get(k, 0)))
        self.solver_s += r.get("solver_s", 0.0)
        self.explore_s += r.get("explore_s", 0.0)
        self.functions.update(r.get("functions", ()))
        if r.get("degenerate"):
            self.degenerate_instances += 1
        if r.get("over_budget"):
            self.skipped_over_budget.append(r.get("label", "?"))
        for s in r.get("samples", ()):
            if len(self.samples) < 12:
                self.samples.append(s)
        self.violations.extend(r.get("violations", ()))
        for cls, ex in r.get("known", {}).items():
            self.known_hits.setdefault(cls, ex)
        self.errors.extend(r.get("errors", ()))
        self.kernels.extend(r.get("kernels", ()))


def run_pool(work: Callable[[Any], dict], items: list, report: Report, chunksize: int = 1) -> None:
    n = min(jobs(), max(1, len(items)))
    if n == 1 or len(items) <= 1:
        for it in items:
            report.absorb(_safe(work, it))
        return
    ctx = mp.get_context("fork")
    with ctx.Pool(n) as pool:
        for r in pool.imap_unordered(_Safe(work), items, chunksize=chunksize):
            report.absorb(r)


class _Safe:
    def __init__(self, work):
        self.work = work

    def __call__(self, it):
        return _safe(self.work, it)


def _safe(work, it) -> dict:
    try:
        return work(it)
    except BaseException as e:  # noqa: BLE001
        return {"errors": [f"{type(e).__name__}: {e} in instance {str(it)[:300]}\n{traceback.format_exc()[-1500:]}"], "label": str(it)[:200]}


# ---------------------------------------------------------------------------------------------------
# finishing: evidence, replay files, exit code


def write_replay(prop: str, payload: dict) -> str:
    d = os.path.join(os.environ.get("VERIF_REPLAY_DIR") or os.path.join(VERIF, "replays"), prop)
    os.makedirs(d, exist_ok=True)
    blob = json.dumps(payload, sort_keys=True, indent=1, default=str)
    sha = hashlib.sha1(blob.encode()).hexdigest()[:12]
    p = os.path.join(d, f"{sha}.json")
    with open(p, "w", encoding="utf-8") as f:
        f.write(blob + "\n")
    return p


def finish(report: Report) -> int:
    wall = time.time() - report.t0
    known = load_known(report.prop)
    lines: list[str] = []
    # KNOWN-FINDING lines only for listed classes that were re-found and replayed on this tree
    for cls, ex in sorted(report.known_hits.items()):
        if cls in known:
            lines.append(f"KNOWN-FINDING: property={report.prop} class={cls} {known[cls].text} [witness: {json.dumps(ex, default=str)[:400]}]")
    viol_paths = []
    seen = set()
    for v in report.violations:
        sig = json.dumps(v.get("signature", v), sort_keys=True, default=str)
        if sig in seen:
            continue
        seen.add(sig)
        if len(viol_paths) >= 25:
            continue
        viol_paths.append(write_replay(report.prop, v))
    status = 0
    if report.errors:
        status = 3
    if viol_paths:
        status = 1
    cov = {
        "states": max(report.paths, 0),
        "transitions": max(report.forks, 0),
        "traces_validated_against_impl": report.replays,
        "samples": report.samples[:12] or [{"note": "no sample recorded"}],
        "instances": report.instances,
        "variables_total": report.variables_total,
        "dont_care_vars": report.dont_care_vars,
        "degenerate_instances": report.degenerate_instances,
        "queries": report.queries,
        "queries_unsat": report.queries_unsat,
        "queries_sat": report.queries_sat,
        "queries_unknown": report.queries_unknown,
        "solver_s": round(report.solver_s, 3),
        "explore_cpu_s": round(report.explore_s, 3),
        "functions_encoded": sorted(report.functions),
        "bounds": report.bounds,
        "skipped_over_budget": report.skipped_over_budget[:200],
        "skipped_over_budget_count": len(report.skipped_over_budget),
        "kernels": report.kernels,
        "stubs": report.stubs,
        "known_findings_refound": sorted(c for c in report.known_hits if c in known),
        "harness_errors": report.errors[:10],
        "exhaustive": False,
    }
    cov.update(report.extra)
    ev = {
        "property_id": report.prop,
        "tier": report.tier,
        "seed": seed(),
        "level": "model_checking",
        "coverage": cov,
        "assumptions": report.assumptions,
        "wall_s": round(wall, 2),
        "violations": len(viol_paths),
    }
    # VERIF_EVIDENCE_DIR / VERIF_REPLAY_DIR: only used by tools/sweep.py (runs against scratch worktrees with a seeded
    # change applied must not overwrite the evidence of the real tree); registered commands never set them
    evdir = os.environ.get("VERIF_EVIDENCE_DIR") or os.path.join(VERIF, "evidence")
    os.makedirs(evdir, exist_ok=True)
    with open(os.path.join(evdir, f"{report.prop}.json"), "w", encoding="utf-8") as f:
        json.dump(ev, f, indent=1, default=str)
        f.write("\n")
    for ln in lines:
        print(ln)
    for p in viol_paths:
        print(f"VIOLATION property={report.prop} replay={p}")
    for e in report.errors[:10]:
        print(f"HARNESS-ERROR property={report.prop} {e}", file=sys.stderr)
    print(
        f"[{report.prop} {report.tier}] instances={report.instances} paths={report.paths} forks={report.forks} "
        f"vars={report.variables_total} dont_care={report.dont_care_vars} queries={report.queries} "
        f"(unsat {report.queries_unsat}, sat {report.queries_sat}, unknown {report.queries_unknown}) "
        f"solver_s={report.solver_s:.2f} replays={report.replays} over_budget={len(report.skipped_over_budget)} "
        f"kernels={len(report.kernels)} wall_s={wall:.1f} exit={status}"
    )
    return status


# ---------------------------------------------------------------------------------------------------
# which pytestarch functions ran (first path of an instance)


class FunctionRecorder:
    def __init__(self) -> None:
        self.names: set[str] = set()

    def __enter__(self):
        def prof(frame, event, arg):
            if event == "call":
                fn = frame.f_code.co_filename
                if "/pytestarch/" in fn:
                    mod = fn.split("/pytestarch/", 1)[1].rsplit(".py", 1)[0].replace("/", ".")
                    self.names.add(f"{mod}:{frame.f_code.co_qualname}")

        sys.setprofile(prof)
        return self

    def __exit__(self, *a):
        sys.setprofile(None)
        return False
