"""Z3 regex encodings regenerated from the running code.

The pattern strings handed to ``re.compile`` by the code under test are captured with a spy, parsed with the
interpreter's own ``re._parser`` and translated construct by construct into z3 regular expressions over a
bounded alphabet (printable ASCII and TAB; a *line* never contains a newline).  An unsupported construct is a
harness error (``Unsupported``), never a pass.

Line semantics (MULTILINE, ``re.finditer`` over a text, one line considered in isolation): a top-level
alternative ``B`` yields a match on the line iff  line in  [Sigma*] . L(B) . [Sigma*], where the leading /
trailing Sigma* is present unless ``B`` starts with ``^`` / ends with ``$``.
"""

from __future__ import annotations

import re
import re._constants as C  # type: ignore
import re._parser as P  # type: ignore

import z3

ALPHABET = [chr(c) for c in range(0x20, 0x7F)] + ["\t"]
_ALPHASET = set(ALPHABET)
WORD = {c for c in ALPHABET if c.isalnum() or c == "_"}
DIGIT = {c for c in ALPHABET if c.isdigit()}
SPACE = {c for c in ALPHABET if c in " \t"}


class Unsupported(Exception):
    pass


# ---------------------------------------------------------------------------------------------------
# capture


class _ReSpy:
    def __init__(self, real):
        self._real = real
        self.compiled: list = []

    def compile(self, pattern, flags=0):
        self.compiled.append((pattern, int(flags)))
        return self._real.compile(pattern, flags)

    def __getattr__(self, name):
        return getattr(self._real, name)


def capture(module, calls) -> list[tuple[str, int]]:
    """Runs calls() with module.re replaced by a spy; returns the (pattern, flags) handed to re.compile."""
    spy = _ReSpy(module.re)
    old = module.re
    module.re = spy
    try:
        calls()
    finally:
        module.re = old
    return spy.compiled


# ---------------------------------------------------------------------------------------------------
# own AST:  ('set', frozenset chars) | ('cat', [nodes]) | ('alt', [nodes]) | ('rep', node, lo, hi|None)
#           ('group', name|None, node) | ('bol',) | ('eol',)


def _category(cat) -> set:
    if cat == C.CATEGORY_WORD:
        return set(WORD)
    if cat == C.CATEGORY_NOT_WORD:
        return _ALPHASET - WORD
    if cat == C.CATEGORY_DIGIT:
        return set(DIGIT)
    if cat == C.CATEGORY_NOT_DIGIT:
        return _ALPHASET - DIGIT
    if cat == C.CATEGORY_SPACE:
        return set(SPACE)
    if cat == C.CATEGORY_NOT_SPACE:
        return _ALPHASET - SPACE
    raise Unsupported(f"category {cat}")


def _conv(sub, flags, names: dict):
    items = []
    for op, arg in sub:
        if op == C.LITERAL:
            items.append(("set", frozenset({chr(arg)} & _ALPHASET)))
        elif op == C.NOT_LITERAL:
            items.append(("set", frozenset(_ALPHASET - {chr(arg)})))
        elif op == C.ANY:
            items.append(("set", frozenset(_ALPHASET)))  # no newline inside a line, so DOTALL does not matter here
        elif op == C.IN:
            s: set = set()
            neg = False
            for iop, iarg in arg:
                if iop == C.NEGATE:
                    neg = True
                elif iop == C.LITERAL:
                    s.add(chr(iarg))
                elif iop == C.RANGE:
                    s |= {chr(c) for c in range(iarg[0], iarg[1] + 1)}
                elif iop == C.CATEGORY:
                    s |= _category(iarg)
                else:
                    raise Unsupported(f"class item {iop}")
            s &= _ALPHASET
            items.append(("set", frozenset(_ALPHASET - s if neg else s)))
        elif op == C.BRANCH:
            items.append(("alt", [_conv(b, flags, names) for b in arg[1]]))
        elif op == C.SUBPATTERN:
            group, add, dele, p = arg
            if add or dele:
                raise Unsupported("inline flags")
            items.append(("group", names.get(group), _conv(p, flags, names)))
        elif op in (C.MAX_REPEAT, C.MIN_REPEAT):
            lo, hi, p = arg
            items.append(("rep", _conv(p, flags, names), lo, None if hi == C.MAXREPEAT else hi))
        elif op == C.AT:
            if arg in (C.AT_BEGINNING, C.AT_BEGINNING_LINE, C.AT_BEGINNING_STRING):
                items.append(("bol",))
            elif arg in (C.AT_END, C.AT_END_LINE, C.AT_END_STRING):
                items.append(("eol",))
            else:
                raise Unsupported(f"anchor {arg}")
        else:
            raise Unsupported(f"regex construct {op}")
    return ("cat", items)


def parse(pattern: str, flags: int = 0):
    sp = P.parse(pattern, flags)
    names = {v: k for k, v in sp.state.groupdict.items()}
    return _conv(sp, flags, names)


# ---------------------------------------------------------------------------------------------------
# z3 translation

_RS = None


def _re_sort():
    global _RS
    if _RS is None:
        _RS = z3.ReSort(z3.StringSort())
    return _RS


def EMPTY():
    return z3.Re("")


def set_re(chars) -> z3.ReRef:
    cs = sorted(chars)
    if not cs:
        return z3.Empty(_re_sort())
    runs = []
    start = prev = cs[0]
    for c in cs[1:]:
        if ord(c) == ord(prev) + 1:
            prev = c
        else:
            runs.append((start, prev))
            start = prev = c
    runs.append((start, prev))
    parts = [z3.Range(a, b) if a != b else z3.Re(a) for a, b in runs]
    return parts[0] if len(parts) == 1 else z3.Union(*parts)


def SIGMA():
    return set_re(_ALPHASET)


def SIGMA_STAR():
    return z3.Star(SIGMA())


def cat_re(parts):
    parts = [p for p in parts]
    if not parts:
        return EMPTY()
    return parts[0] if len(parts) == 1 else z3.Concat(*parts)


def to_z3(node) -> z3.ReRef:
    k = node[0]
    if k == "set":
        return set_re(node[1])
    if k == "cat":
        return cat_re([to_z3(n) for n in node[1]])
    if k == "alt":
        parts = [to_z3(n) for n in node[1]]
        return parts[0] if len(parts) == 1 else z3.Union(*parts)
    if k == "group":
        return to_z3(node[2])
    if k == "rep":
        inner, lo, hi = to_z3(node[1]), node[2], node[3]
        if (lo, hi) == (0, 1):
            return z3.Option(inner)
        if (lo, hi) == (0, None):
            return z3.Star(inner)
        if (lo, hi) == (1, None):
            return z3.Plus(inner)
        if hi is None:
            return z3.Concat(z3.Loop(inner, lo, lo), z3.Star(inner))
        return z3.Loop(inner, lo, hi)
    if k in ("bol", "eol"):
        raise Unsupported("anchor in the middle of a pattern")
    raise Unsupported(str(k))


# ---------------------------------------------------------------------------------------------------
# structure: top-level alternatives, anchors, flattening, splitting at named groups


def flatten(node) -> list:
    """Sequence items of a node with plain (unnamed, unrepeated) groups and nested sequences inlined."""
    if node[0] == "cat":
        out = []
        for n in node[1]:
            out.extend(flatten(n))
        return out
    if node[0] == "group" and node[1] is None and node[2][0] == "cat" and not _is_alt_only(node[2]):
        return flatten(node[2])
    return [node]


def _is_alt_only(cat) -> bool:
    return len(cat[1]) == 1 and cat[1][0][0] == "alt"


def top_branches(ast) -> list[dict]:
    """[{'bol': bool, 'eol': bool, 'items': [...]}] per top-level alternative."""
    items = flatten(ast)
    if len(items) == 1 and items[0][0] == "alt":
        alts = items[0][1]
    else:
        alts = [("cat", items)]
    out = []
    for a in alts:
        its = flatten(a)
        bol = bool(its) and its[0] == ("bol",)
        eol = bool(its) and its[-1] == ("eol",)
        its = its[1 if bol else 0: len(its) - (1 if eol else 0)]
        if any(i[0] in ("bol", "eol") for i in its):
            raise Unsupported("anchor inside an alternative")
        out.append({"bol": bol, "eol": eol, "items": its})
    return out


def branch_line_language(b: dict) -> z3.ReRef:
    parts = []
    if not b["bol"]:
        parts.append(SIGMA_STAR())
    parts.append(cat_re([to_z3(i) for i in b["items"]]))
    if not b["eol"]:
        parts.append(SIGMA_STAR())
    return cat_re(parts)


def line_language(ast) -> z3.ReRef:
    ls = [branch_line_language(b) for b in top_branches(ast)]
    return ls[0] if len(ls) == 1 else z3.Union(*ls)


def named_groups_in(node) -> list[str]:
    k = node[0]
    if k == "group":
        return ([node[1]] if node[1] else []) + named_groups_in(node[2])
    if k in ("cat", "alt"):
        return [g for n in node[1] for g in named_groups_in(n)]
    if k == "rep":
        return named_groups_in(node[1])
    return []


def split_at_named(b: dict):
    """Splits the item sequence of a branch at its top-level named groups.
    Returns (segments, groups): segments[i] = z3 regex of the constant part before group i (last = tail);
    groups = [(name, z3 regex of the group body, optional: bool)].
    A named group nested inside an optional group '(... (?P<n>...) ...)?' is handled by returning the
    optional part as its own sub-split: ('opt', segments, groups)."""
    segs, groups, cur = [], [], []
    for it in b["items"]:
        if it[0] == "group" and it[1]:
            segs.append(cat_re([to_z3(x) for x in cur]))
            cur = []
            if named_groups_in(it[2]):
                raise Unsupported("nested named groups")
            groups.append((it[1], to_z3(it[2])))
        elif named_groups_in(it):
            # optional tail holding named groups:  ( pre (?P<n>body) post )?
            if it[0] == "rep" and (it[2], it[3]) == (0, 1):
                inner = {"bol": False, "eol": False, "items": flatten(it[1])}
                isegs, igroups = split_at_named(inner)
                segs.append(cat_re([to_z3(x) for x in cur]))
                cur = []
                groups.append(("?opt", isegs, igroups))
            else:
                raise Unsupported("named group under a repetition / alternation")
        else:
            cur.append(it)
    segs.append(cat_re([to_z3(x) for x in cur]))
    return segs, groups


# ---------------------------------------------------------------------------------------------------
# translator validation


def z3_accepts(lang: z3.ReRef, s: str) -> bool:
    r = z3.simplify(z3.InRe(z3.StringVal(s), lang))
    if z3.is_true(r):
        return True
    if z3.is_false(r):
        return False
    sol = z3.Solver()
    sol.add(r)
    return str(sol.check()) == "sat"


def validate_line(pattern: str, flags: int, line: str) -> bool:
    """True iff the real re and the translation agree on 'the pattern has a match on this line'."""
    if "\n" in line or any(c not in _ALPHASET for c in line):
        return True  # outside the encoded alphabet
    real = re.search(re.compile(pattern, flags), line) is not None
    return real == z3_accepts(line_language(parse(pattern, flags)), line)
