"""Direct z3 string-theory encoding of ``convert_partial_match_to_regex``, regenerated from its source.

A small symbolic interpreter walks the function's AST (``inspect.getsource`` at run time) with the argument a z3
String: ``startswith/endswith`` -> PrefixOf/SuffixOf, ``len`` -> Length, slicing -> SubString, conditional
expressions -> If, ``if`` statements fork the path condition, f-strings build a token list.  ``re.escape(x)`` is
the opaque token ESC(x) with the contract "the escaped text matches exactly the text x" (that contract is what
the CrossHair kernel checks against the real ``re`` at its smaller bound).  The returned token list of every path
is given its ``re.match`` meaning in closed form:
    [ESC t, '$'] -> s == t     ['.*', ESC t, '$'] -> t suffix of s     [ESC t, '.*'] -> t prefix of s
    ['.*', ESC t, '.*'] -> s contains t
Anything else is ``Unsupported`` (a harness error, never a pass).
"""

from __future__ import annotations

import ast
import inspect
import textwrap

import z3


class Unsupported(Exception):
    pass


class Tokens:
    """A regex under construction: list of ('LIT', str) | ('ESC', z3 string expr)."""

    def __init__(self, toks):
        self.toks = list(toks)


def encode_converter(fn, module, p: z3.SeqRef):
    """[(path condition, Tokens)] for every path of fn(p)."""
    src = textwrap.dedent(inspect.getsource(fn))
    fdef = ast.parse(src).body[0]
    if not isinstance(fdef, ast.FunctionDef) or len(fdef.args.args) != 1:
        raise Unsupported("unexpected signature")
    env0 = {fdef.args.args[0].arg: p}
    results: list = []

    def const(name):
        if hasattr(module, name):
            v = getattr(module, name)
            if isinstance(v, (str, int)):
                return v
        raise Unsupported(f"name {name}")

    def ev(node, env):
        if isinstance(node, ast.Constant):
            return node.value
        if isinstance(node, ast.Name):
            if node.id in env:
                return env[node.id]
            return const(node.id)
        if isinstance(node, ast.Call):
            f = node.func
            if isinstance(f, ast.Attribute) and f.attr in ("startswith", "endswith") and len(node.args) == 1:
                s, a = ev(f.value, env), ev(node.args[0], env)
                a = z3.StringVal(a) if isinstance(a, str) else a
                return z3.PrefixOf(a, s) if f.attr == "startswith" else z3.SuffixOf(a, s)
            if isinstance(f, ast.Name) and f.id == "len" and len(node.args) == 1:
                return z3.Length(ev(node.args[0], env))
            if isinstance(f, ast.Attribute) and f.attr == "escape" and isinstance(f.value, ast.Name) and f.value.id == "re":
                return Tokens([("ESC", ev(node.args[0], env))])
            raise Unsupported(f"call {ast.dump(node)[:80]}")
        if isinstance(node, ast.IfExp):
            c, a, b = ev(node.test, env), ev(node.body, env), ev(node.orelse, env)
            return z3.If(c, _i(a), _i(b))
        if isinstance(node, ast.BinOp) and isinstance(node.op, (ast.Sub, ast.Add)):
            a, b = _i(ev(node.left, env)), _i(ev(node.right, env))
            return a - b if isinstance(node.op, ast.Sub) else a + b
        if isinstance(node, ast.Subscript) and isinstance(node.slice, ast.Slice) and node.slice.step is None:
            s = ev(node.value, env)
            lo = _i(ev(node.slice.lower, env)) if node.slice.lower is not None else z3.IntVal(0)
            hi = _i(ev(node.slice.upper, env)) if node.slice.upper is not None else z3.Length(s)
            # Python slice with 0 <= lo, hi <= len: s[lo:hi] is empty when hi <= lo
            return z3.If(hi > lo, z3.SubString(s, lo, hi - lo), z3.StringVal(""))
        if isinstance(node, ast.JoinedStr):
            toks = []
            for v in node.values:
                if isinstance(v, ast.Constant):
                    toks.append(("LIT", v.value))
                elif isinstance(v, ast.FormattedValue) and v.conversion == -1 and v.format_spec is None:
                    x = ev(v.value, env)
                    if isinstance(x, Tokens):
                        toks.extend(x.toks)
                    elif isinstance(x, str):
                        toks.append(("LIT", x))
                    else:
                        raise Unsupported("raw (unescaped) symbolic text inside the regex")
                else:
                    raise Unsupported("format spec")
            return Tokens(toks)
        raise Unsupported(f"expression {type(node).__name__}")

    def _i(x):
        return z3.IntVal(x) if isinstance(x, int) and not isinstance(x, bool) else x

    def run(stmts, env, cond):
        for i, st in enumerate(stmts):
            if isinstance(st, ast.Expr) and isinstance(st.value, ast.Constant):
                continue
            if isinstance(st, ast.Assign) and len(st.targets) == 1 and isinstance(st.targets[0], ast.Name):
                env = dict(env)
                env[st.targets[0].id] = ev(st.value, env)
                continue
            if isinstance(st, ast.If):
                c = ev(st.test, env)
                if not z3.is_bool(c):
                    raise Unsupported("non-Boolean condition")
                rest = stmts[i + 1:]
                run(list(st.body) + rest, env, cond + [c])
                run(list(st.orelse) + rest, env, cond + [z3.Not(c)])
                return
            if isinstance(st, ast.Return):
                r = ev(st.value, env)
                if not isinstance(r, Tokens):
                    raise Unsupported("return value is not a regex token list")
                results.append((cond, r))
                return
            raise Unsupported(f"statement {type(st).__name__}")
        raise Unsupported("function falls off its end")

    run(fdef.body, env0, [])
    return results


def match_meaning(tokens: Tokens, s: z3.SeqRef):
    """Closed-form meaning of re.match(<tokens>, s) is not None for newline-free s."""
    toks = list(tokens.toks)
    lits = [t for t in toks if t[0] == "LIT"]
    escs = [t for t in toks if t[0] == "ESC"]
    if len(escs) != 1:
        raise Unsupported(f"token structure {toks}")
    shape = tuple(t[1] if t[0] == "LIT" else "<T>" for t in toks)
    t = escs[0][1]
    if shape == ("<T>", "$"):
        return s == t
    if shape == (".*", "<T>", "$"):
        return z3.SuffixOf(t, s)
    if shape == ("<T>", ".*"):
        return z3.PrefixOf(t, s)
    if shape == (".*", "<T>", ".*"):
        return z3.Contains(s, t)
    if shape == ("<T>",):
        return z3.PrefixOf(t, s)  # unanchored tail: re.match only anchors the start
    if shape == (".*", "<T>"):
        return z3.Contains(s, t)
    raise Unsupported(f"regex shape {shape} ({len(lits)} literals)")


def glob_oracle(p: z3.SeqRef, s: z3.SeqRef, t: z3.SeqRef):
    """(defining constraints of t, 'pattern p matches s' by the documented glob semantics).
    t is the literal text: p with one leading and one trailing '*' removed, defined by an equation."""
    star = z3.StringVal("*")
    lead = z3.PrefixOf(star, p)
    trail = z3.And(z3.SuffixOf(star, p), z3.Length(p) >= 2)
    only = p == star
    define = z3.If(
        only,
        t == z3.StringVal(""),
        z3.If(z3.And(lead, trail), p == z3.Concat(star, t, star), z3.If(lead, p == z3.Concat(star, t), z3.If(trail, p == z3.Concat(t, star), p == t))),
    )
    meaning = z3.If(only, z3.BoolVal(True), z3.If(z3.And(lead, trail), z3.Contains(s, t), z3.If(lead, z3.SuffixOf(t, s), z3.If(trail, z3.PrefixOf(t, s), s == t))))
    return define, meaning


def python_eval(fn, pattern: str, subject: str) -> bool:
    import re

    return re.match(fn(pattern), subject) is not None
