"""Draw spy: replaces ``draw_networkx`` and ``spring_layout`` *as seen by* pytestarch.eval_structure.networkxgraph
(module globals) and records the call into the drawing backend - the observation point named by C17."""

from __future__ import annotations

import contextlib

LAYOUT = ("LAYOUT-RESULT",)


class Spy:
    def __init__(self) -> None:
        self.draw_calls: list = []
        self.layout_calls: list = []

    def draw_networkx(self, *args, **kwargs):
        self.draw_calls.append((args, kwargs))

    def spring_layout(self, *args, **kwargs):
        self.layout_calls.append((args, kwargs))
        return LAYOUT


@contextlib.contextmanager
def draw_spy():
    import pytestarch.eval_structure.networkxgraph as ng

    spy = Spy()
    old = (ng.draw_networkx, ng.spring_layout)
    ng.draw_networkx, ng.spring_layout = spy.draw_networkx, spy.spring_layout
    try:
        yield spy
    finally:
        ng.draw_networkx, ng.spring_layout = old


def labels_via_public_api(nodes: list[str], aliases: dict, **kw):
    """visualize(aliases=...) on a real architecture; returns ('LABELS', dict) | ('ERROR', type, text)."""
    from vf.engine.stubs_graph import real_architecture

    ev = real_architecture(nodes, [])
    with draw_spy() as spy:
        try:
            ev.visualize(aliases=aliases, **kw)
        except Exception as e:  # noqa: BLE001
            return ("ERROR", type(e).__name__, str(e))
    if len(spy.draw_calls) != 1:
        return ("ERROR", "NoDrawCall", str(len(spy.draw_calls)))
    return ("LABELS", dict(spy.draw_calls[0][1].get("labels") or {}))
