"""SymFS: a symbolic file system at the pathlib / open boundary.

``pytestarch.pytestarch.Path`` (the only place where the scanner creates path objects from strings) is replaced by
``SymPath``, a ``pathlib.PosixPath`` subclass whose ``is_dir / iterdir / resolve / exists`` answer from a model:
a fixed universe of candidate paths, each existing iff its parent exists and its symbolic existence bit is set
(bits are asked lazily, so nothing below a skipped directory is ever inspected).  ``open`` as seen by the parser
module returns the file's text, assembled from symbolic 'this import line is present' bits.  Every model can be
materialised as a real directory (``materialise``) and scanned by the unpatched entry point.
"""

from __future__ import annotations

import contextlib
import io
import itertools
import os
import pathlib

from vf.engine.symex import ENGINE

ROOT_PARENT = "/symfs"


class FSModel:
    def __init__(self, cands: dict, lines: dict | None = None, order_symbolic: bool = False, fixed: dict | None = None, lines_fixed: bool = False, links: dict | None = None):
        """cands: relative path -> 'dir' | 'file' (parents must be listed too; the first component is the root
        directory, which always exists).  lines: relative file path -> list of candidate source lines.
        fixed: relative path -> bool, existence decided by the instance (not symbolic)."""
        self.cands = dict(cands)
        # links: relative path of a directory symlink -> relative path of its target directory.  The link and the
        # paths below it are listed in cands like ordinary entries; a path below a link exists iff the link exists and
        # the corresponding target path exists, holds the target's text, and resolve() maps it to the target path
        self.links = dict(links or {})
        self.lines = dict(lines or {})
        self.order_symbolic = order_symbolic
        self.fixed = dict(fixed or {})
        self.lines_fixed = lines_fixed
        self.kids: dict = {}
        for p in self.cands:
            par = os.path.dirname(p)
            self.kids.setdefault(par, []).append(p)
        for k in self.kids:
            self.kids[k].sort()
        self.roots = [p for p in self.cands if "/" not in p]
        self.opened: list = []

    # ---- model queries (fork lazily) -------------------------------------------------------------
    def rel(self, path) -> str | None:
        s = str(path)
        if s.startswith(ROOT_PARENT + "/"):
            return s[len(ROOT_PARENT) + 1:]
        return None

    def target(self, rel: str) -> str | None:
        """The path a link, or a path below a link, stands for (None for ordinary paths)."""
        for link, tgt in self.links.items():
            if rel == link:
                return tgt
            if rel.startswith(link + "/"):
                return tgt + rel[len(link):]
        return None

    def exists(self, rel: str) -> bool:
        if rel not in self.cands:
            return False
        if "/" not in rel:
            return True
        if not self.exists(os.path.dirname(rel)):
            return False
        t = self.target(rel)
        if t is not None and rel not in self.links:
            return self.exists(t)
        if t is not None and not self.exists(t):
            return False
        if rel in self.fixed:
            return self.fixed[rel]
        return ENGINE.branch(("x", rel)) == 1

    def is_dir(self, rel: str) -> bool:
        return self.cands.get(rel) == "dir" and self.exists(rel)

    def children(self, rel: str) -> list[str]:
        out = [c for c in self.kids.get(rel, []) if self.exists(c)]
        if self.order_symbolic and len(out) > 1:
            perms = list(itertools.permutations(range(len(out))))
            k = ENGINE.choice(("perm", rel, len(out)), len(perms))
            out = [out[i] for i in perms[k]]
        return out

    def present_lines(self, rel: str) -> list[str]:
        t = self.target(rel)
        if t is not None:
            return self.present_lines(t)
        if self.lines_fixed:
            return list(self.lines.get(rel, []))
        return [ln for i, ln in enumerate(self.lines.get(rel, [])) if ENGINE.branch(("l", rel, i)) == 1]

    def content(self, rel: str) -> str:
        return "x = 1\n" + "".join(ln + "\n" for ln in self.present_lines(rel))

    def all_keys(self) -> list:
        ks = [(("x", p), 2) for p in self.cands if "/" in p and p not in self.fixed and (self.target(p) is None or p in self.links)]
        if not self.lines_fixed:
            ks += [(("l", p, i), 2) for p, ls in self.lines.items() for i in range(len(ls))]
        return ks

    # ---- concrete view under an assignment (oracles, materialisation) ----------------------------
    def concrete(self, assign: dict):
        """(existing relative paths, {file: present lines}) under a total/partial assignment (missing -> 0)."""
        ex = set()
        own = lambda p: self.fixed[p] if p in self.fixed else assign.get(("x", p), 0) == 1  # noqa: E731
        for _ in range(2 if self.links else 1):  # second pass: paths below links, whose targets may sort later
            for p in sorted(self.cands, key=lambda q: q.count("/")):
                if "/" not in p:
                    ex.add(p)
                    continue
                if os.path.dirname(p) not in ex:
                    continue
                t = self.target(p)
                if t is None:
                    if own(p):
                        ex.add(p)
                elif p in self.links:
                    if t in ex and own(p):
                        ex.add(p)
                elif t in ex:
                    ex.add(p)
        txt = {p: [ln for i, ln in enumerate(ls) if self.lines_fixed or assign.get(("l", p, i), 0) == 1] for p, ls in self.lines.items() if p in ex}
        for p in ex:
            t = self.target(p)
            if t is not None and t in txt:
                txt[p] = list(txt[t])
        return ex, txt

    def materialise(self, assign: dict, base: str) -> str:
        ex, txt = self.concrete(assign)
        for p in sorted(ex, key=lambda q: q.count("/")):
            full = os.path.join(base, p)
            if p in self.links:
                os.symlink(os.path.join(base, self.links[p]), full, target_is_directory=True)
                continue
            if self.target(p) is not None:
                continue  # reached through the link
            if self.cands[p] == "dir":
                os.makedirs(full, exist_ok=True)
            else:
                with open(full, "w", encoding="utf-8") as f:
                    f.write("x = 1\n" + "".join(ln + "\n" for ln in txt.get(p, [])))
        return base


_FS: FSModel | None = None


class SymPath(pathlib.PosixPath):
    def is_dir(self):  # noqa: D102
        r = _FS.rel(self)
        return r is not None and _FS.is_dir(r)

    def exists(self, **kw):  # noqa: D102
        r = _FS.rel(self)
        return r is not None and _FS.exists(r)

    def is_file(self):  # noqa: D102
        r = _FS.rel(self)
        return r is not None and _FS.cands.get(r) == "file" and _FS.exists(r)

    def iterdir(self):  # noqa: D102
        r = _FS.rel(self)
        return [SymPath(ROOT_PARENT + "/" + c) for c in _FS.children(r)]

    def resolve(self, strict=False):  # noqa: D102
        r = _FS.rel(self)
        t = _FS.target(r) if r is not None else None
        return SymPath(ROOT_PARENT + "/" + t) if t is not None else self

    def absolute(self):  # noqa: D102
        return self

    # further read-only entry points a scanner may reasonably use; all answer from the same model
    def stat(self, *, follow_symlinks=True):  # noqa: D102
        r = _FS.rel(self)
        if r is None or not _FS.exists(r):
            raise FileNotFoundError(str(self))
        t = _FS.target(r) if follow_symlinks else None
        r = t if t is not None else r
        is_dir = _FS.cands.get(r) == "dir"
        size = 4096 if is_dir else len(_FS.content(r).encode())
        ino = 1000 + sorted(_FS.cands).index(r)
        mode = (0o040755 if is_dir else 0o100644) if not (r in _FS.links and not follow_symlinks) else 0o120777
        return os.stat_result((mode, ino, 1, 1, 0, 0, size, 1_700_000_000, 1_700_000_000, 1_700_000_000))

    def lstat(self):  # noqa: D102
        return self.stat(follow_symlinks=False)

    def is_symlink(self):  # noqa: D102
        r = _FS.rel(self)
        return r is not None and r in _FS.links and _FS.exists(r)

    def open(self, mode="r", *a, **k):  # noqa: D102
        f = _fake_open(self)
        return io.BytesIO(f.read().encode()) if "b" in mode else f

    def read_text(self, *a, **k):  # noqa: D102
        return _fake_open(self).read()

    def read_bytes(self):  # noqa: D102
        return _fake_open(self).read().encode()

    def samefile(self, other):  # noqa: D102
        return str(self.resolve()) == str(SymPath(str(other)).resolve())


def _fake_open(path, *a, **k):
    r = _FS.rel(path)
    if r is None or not _FS.exists(r) or _FS.cands.get(r) != "file":
        raise FileNotFoundError(str(path))
    _FS.opened.append(r)
    return io.StringIO(_FS.content(r))


@contextlib.contextmanager
def symfs(model: FSModel):
    """Installs the model: Path in pytestarch.pytestarch, open in the parser module."""
    global _FS
    import pytestarch.eval_structure_generation.file_import.parser as parser_mod
    import pytestarch.pytestarch as entry

    old_fs, old_path = _FS, entry.Path
    _FS = model
    entry.Path = SymPath
    parser_mod.open = _fake_open
    try:
        yield model
    finally:
        entry.Path = old_path
        del parser_mod.open
        _FS = old_fs


def abs_path(rel: str) -> str:
    return ROOT_PARENT + "/" + rel


def dotted(rel: str) -> str:
    """Module name of a relative path: separators -> dots, '.py' dropped, starting with the root directory."""
    if rel.endswith(".py"):
        rel = rel[:-3]
    return rel.replace("/", ".")


def graph_view(ev):
    """(modules, import edges, hierarchy edges) of an evaluable built by the real entry point."""
    from vf.engine.stubs_graph import inner_digraph, split_edges

    g = inner_digraph(ev)
    imp, hier = split_edges(g)
    return set(g.nodes), imp, hier
