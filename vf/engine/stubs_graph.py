"""SymDiGraph: stands in for the ``networkx.DiGraph`` held in ``NetworkxGraph._graph`` *after* the real
constructor has built the hierarchy.  Hierarchy edges are concrete (inherits=True); an import edge x->y
exists iff the symbolic atom e[x,y] is true (inherits=False).  No mutators.

Contract checked by replay: every model is rebuilt as a real ``NetworkxGraph(all_modules, imports)`` and
the real rule is evaluated on it (see ``real_architecture``).
"""

from __future__ import annotations

from typing import Callable, Iterable

import networkx as nx

from vf.engine.symex import ENGINE


def edge_key(x: str, y: str, tag: str = "e") -> tuple:
    return (tag, x, y)


class MutationAttempt(Exception):
    pass


class SymDiGraph:
    def __init__(
        self,
        real: nx.DiGraph,
        tag: str = "e",
        edge_fn: Callable[[str, str], bool] | None = None,
        no_var: Iterable[tuple[str, str]] = (),
    ) -> None:
        """real: the frozen hierarchy-only DiGraph built by the real constructor.
        edge_fn(x, y): overrides how the presence of import edge x->y is decided (default: one atom).
        no_var: ordered pairs that never carry an import edge."""
        self._real = real
        self._tag = tag
        self._nodes = list(real.nodes)
        self._nodeset = set(self._nodes)
        self._hier = {(u, v) for u, v, d in real.edges(data=True) if d.get("inherits")}
        self._novar = set(no_var) | self._hier
        self._edge_fn = edge_fn
        order = sorted(self._nodes)
        self._succ_c = {x: [y for y in order if y != x] for x in order}
        self.mutations = 0

    # --- variable universe ------------------------------------------------------------------
    def var_pairs(self) -> list[tuple[str, str]]:
        return [
            (x, y)
            for x in sorted(self._nodes)
            for y in sorted(self._nodes)
            if x != y and (x, y) not in self._novar
        ]

    def _imp(self, x: str, y: str) -> bool:
        if (x, y) in self._novar:
            return False
        if self._edge_fn is not None:
            return bool(self._edge_fn(x, y))
        return ENGINE.branch((self._tag, x, y)) == 1

    # --- read API used by NetworkxGraph -----------------------------------------------------
    def _check(self, n: str) -> None:
        if n not in self._nodeset:
            raise nx.NetworkXError(f"The node {n} is not in the digraph.")

    def successors(self, n: str):
        self._check(n)
        hier = self._hier
        return [y for y in self._succ_c[n] if (n, y) in hier or self._imp(n, y)]

    def predecessors(self, n: str):
        self._check(n)
        hier = self._hier
        return [x for x in self._succ_c[n] if (x, n) in hier or self._imp(x, n)]

    def get_edge_data(self, u: str, v: str, default=None):
        if (u, v) in self._hier:
            return {"inherits": True}
        if u in self._nodeset and v in self._nodeset and u != v and self._imp(u, v):
            return {"inherits": False}
        return default

    def has_node(self, n) -> bool:
        return n in self._nodeset

    def __contains__(self, n) -> bool:
        try:
            return n in self._nodeset
        except TypeError:
            return False

    def has_edge(self, u, v) -> bool:
        return self.get_edge_data(u, v) is not None

    @property
    def nodes(self):
        return list(self._nodes)

    def __iter__(self):
        return iter(self._nodes)

    def __len__(self):
        return len(self._nodes)

    def number_of_nodes(self) -> int:
        return len(self._nodes)

    # --- mutators: evaluation must be pure ---------------------------------------------------
    def _mut(self, *a, **k):
        self.mutations += 1
        raise MutationAttempt("evaluation tried to modify the architecture graph")

    add_node = add_edge = remove_node = remove_edge = add_nodes_from = add_edges_from = _mut
    remove_nodes_from = remove_edges_from = clear = update = _mut


def symbolic_architecture(all_modules: list[str], tag: str = "e", edge_fn=None, no_var=(), level_limit=None):
    """Real EvaluableArchitectureGraph(NetworkxGraph(all_modules, [])) whose DiGraph is then replaced."""
    from pytestarch.eval_structure.evaluable_graph import EvaluableArchitectureGraph
    from pytestarch.eval_structure.networkxgraph import NetworkxGraph

    g = NetworkxGraph(list(all_modules), [], level_limit)
    sym = SymDiGraph(g._graph, tag=tag, edge_fn=edge_fn, no_var=no_var)
    g._graph = sym
    return EvaluableArchitectureGraph(g), sym


def real_architecture(all_modules: list[str], edges: Iterable[tuple[str, str]], level_limit=None):
    """Concrete architecture on the real stack, for stub validation and replay."""
    from pytestarch.eval_structure.evaluable_graph import EvaluableArchitectureGraph
    from pytestarch.eval_structure.networkxgraph import NetworkxGraph
    from pytestarch.eval_structure_generation.file_import.import_types import AbsoluteImport

    imports = [AbsoluteImport(x, y) for x, y in edges]
    return EvaluableArchitectureGraph(NetworkxGraph(list(all_modules), imports, level_limit))
