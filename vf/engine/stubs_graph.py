"""SymDiGraph: stands in for the ``networkx.DiGraph`` held in ``NetworkxGraph._graph`` *after* the real
constructor has built the hierarchy.  Hierarchy edges are concrete (inherits=True); an import edge x->y
exists iff the symbolic atom e[x,y] is true (inherits=False).  No mutators.

Contract checked by replay: every model is rebuilt as a real ``NetworkxGraph(all_modules, imports)`` and
the real rule is evaluated on it (see ``real_architecture``).
"""

from __future__ import annotations

from typing import Callable, Iterable

import networkx as nx

from vf.engine.symex import ENGINE


def edge_key(x: str, y: str, tag: str = "e") -> tuple:
    return (tag, x, y)


# --- locating the DiGraph and its edge attributes in the real objects (robust against renamed private names) ------

def _is_graph(v) -> bool:
    return isinstance(v, (nx.DiGraph, SymDiGraph))


def digraph_slot(obj, depth: int = 2):
    """(owner, attribute name) of the networkx DiGraph (or its stand-in) reachable from ``obj`` through instance
    attributes; today that is ``NetworkxGraph._graph`` / ``EvaluableArchitectureGraph._graph._graph``."""
    seen = set()
    level = [obj]
    for _ in range(depth + 1):
        nxt = []
        for o in level:
            if id(o) in seen or not hasattr(o, "__dict__"):
                continue
            seen.add(id(o))
            for k, v in vars(o).items():
                if _is_graph(v):
                    return o, k
            nxt.extend(v for v in vars(o).values() if hasattr(v, "__dict__") and type(v).__module__.startswith("pytestarch"))
        level = nxt
    raise AttributeError(f"no networkx DiGraph reachable from {type(obj).__name__}")


def inner_digraph(obj):
    o, k = digraph_slot(obj)
    return getattr(o, k)


def set_inner_digraph(obj, g) -> None:
    o, k = digraph_slot(obj)
    setattr(o, k, g)


_EDGE_DATA: dict = {}


def edge_data_templates() -> tuple[dict, dict, str]:
    """(data dict of a hierarchy edge, data dict of an import edge, name of the boolean attribute telling them apart),
    read off a two-module graph built by the real constructor (today: {'inherits': True} / {'inherits': False})."""
    if not _EDGE_DATA:
        from pytestarch.eval_structure.networkxgraph import NetworkxGraph
        from pytestarch.eval_structure_generation.file_import.import_types import AbsoluteImport

        g = inner_digraph(NetworkxGraph(["p", "p.a", "q"], [AbsoluteImport("p.a", "q")]))
        hier = dict(g.get_edge_data("p", "p.a"))
        imp = dict(g.get_edge_data("p.a", "q"))
        keys = [k for k in hier if k in imp and bool(hier[k]) != bool(imp[k])]
        if not keys:
            raise AttributeError("hierarchy and import edges carry no distinguishing attribute")
        _EDGE_DATA.update(hier=hier, imp=imp, key=keys[0], hier_val=hier[keys[0]])
    return _EDGE_DATA["hier"], _EDGE_DATA["imp"], _EDGE_DATA["key"]


def is_hier_data(d: dict) -> bool:
    edge_data_templates()
    return d.get(_EDGE_DATA["key"]) == _EDGE_DATA["hier_val"]


def split_edges(g) -> tuple[set, set]:
    """(import edges, hierarchy edges) of a concrete DiGraph."""
    imp, hier = set(), set()
    for u, v, d in g.edges(data=True):
        (hier if is_hier_data(d) else imp).add((u, v))
    return imp, hier


class MutationAttempt(Exception):
    pass


class _AdjView:
    """Lazy stand-in for DiGraph.succ / .pred / .adj: node -> {neighbour: edge data}."""

    def __init__(self, g, nb, data) -> None:
        self._g, self._nb, self._data = g, nb, data

    def __getitem__(self, n):
        return {v: self._data(n, v) for v in self._nb(n)}

    def __contains__(self, n) -> bool:
        return n in self._g

    def __iter__(self):
        return iter(self._g)

    def __len__(self) -> int:
        return len(self._g)


class SymDiGraph:
    def __init__(
        self,
        real: nx.DiGraph,
        tag: str = "e",
        edge_fn: Callable[[str, str], bool] | None = None,
        no_var: Iterable[tuple[str, str]] = (),
    ) -> None:
        """real: the frozen hierarchy-only DiGraph built by the real constructor.
        edge_fn(x, y): overrides how the presence of import edge x->y is decided (default: one atom).
        no_var: ordered pairs that never carry an import edge."""
        self._real = real
        self._tag = tag
        self._nodes = list(real.nodes)
        self._nodeset = set(self._nodes)
        self._hier_data, self._imp_data, _ = edge_data_templates()
        self._hier = {(u, v) for u, v, d in real.edges(data=True) if is_hier_data(d)}
        self._novar = set(no_var) | self._hier
        self._edge_fn = edge_fn
        order = sorted(self._nodes)
        self._succ_c = {x: [y for y in order if y != x] for x in order}
        self.mutations = 0

    # --- variable universe ------------------------------------------------------------------
    def var_pairs(self) -> list[tuple[str, str]]:
        return [
            (x, y)
            for x in sorted(self._nodes)
            for y in sorted(self._nodes)
            if x != y and (x, y) not in self._novar
        ]

    def _imp(self, x: str, y: str) -> bool:
        if (x, y) in self._novar:
            return False
        if self._edge_fn is not None:
            return bool(self._edge_fn(x, y))
        return ENGINE.branch((self._tag, x, y)) == 1

    # --- read API used by NetworkxGraph -----------------------------------------------------
    def _check(self, n: str) -> None:
        if n not in self._nodeset:
            raise nx.NetworkXError(f"The node {n} is not in the digraph.")

    def successors(self, n: str):
        self._check(n)
        hier = self._hier
        return [y for y in self._succ_c[n] if (n, y) in hier or self._imp(n, y)]

    def predecessors(self, n: str):
        self._check(n)
        hier = self._hier
        return [x for x in self._succ_c[n] if (x, n) in hier or self._imp(x, n)]

    def get_edge_data(self, u: str, v: str, default=None):
        if (u, v) in self._hier:
            return dict(self._hier_data)
        if u in self._nodeset and v in self._nodeset and u != v and self._imp(u, v):
            return dict(self._imp_data)
        return default

    # further read-only parts of the DiGraph API (not used by the pinned code; a refactoring may use them)
    def neighbors(self, n: str):
        return self.successors(n)

    def has_successor(self, u, v) -> bool:
        return self.has_edge(u, v)

    def has_predecessor(self, u, v) -> bool:
        return self.has_edge(v, u)

    def out_edges(self, n=None, data=False):
        ns = self._nodes if n is None else ([n] if isinstance(n, str) else list(n))
        return [((u, v, self.get_edge_data(u, v)) if data else (u, v)) for u in ns for v in self.successors(u)]

    def in_edges(self, n=None, data=False):
        ns = self._nodes if n is None else ([n] if isinstance(n, str) else list(n))
        return [((u, v, self.get_edge_data(u, v)) if data else (u, v)) for v in ns for u in self.predecessors(v)]

    def edges(self, n=None, data=False):
        return self.out_edges(n, data)

    def __getitem__(self, n: str):
        return {v: self.get_edge_data(n, v) for v in self.successors(n)}

    @property
    def succ(self):
        return _AdjView(self, self.successors, lambda u, v: self.get_edge_data(u, v))

    adj = _adj = _succ = succ

    @property
    def pred(self):
        return _AdjView(self, self.predecessors, lambda u, v: self.get_edge_data(v, u))

    _pred = pred

    def in_degree(self, n: str) -> int:
        return len(self.predecessors(n))

    def out_degree(self, n: str) -> int:
        return len(self.successors(n))

    def is_directed(self) -> bool:
        return True

    def is_multigraph(self) -> bool:
        return False

    def has_node(self, n) -> bool:
        return n in self._nodeset

    def __contains__(self, n) -> bool:
        try:
            return n in self._nodeset
        except TypeError:
            return False

    def has_edge(self, u, v) -> bool:
        return self.get_edge_data(u, v) is not None

    @property
    def nodes(self):
        return list(self._nodes)

    def __iter__(self):
        return iter(self._nodes)

    def __len__(self):
        return len(self._nodes)

    def number_of_nodes(self) -> int:
        return len(self._nodes)

    # --- mutators: evaluation must be pure ---------------------------------------------------
    def _mut(self, *a, **k):
        self.mutations += 1
        raise MutationAttempt("evaluation tried to modify the architecture graph")

    add_node = add_edge = remove_node = remove_edge = add_nodes_from = add_edges_from = _mut
    remove_nodes_from = remove_edges_from = clear = update = _mut


def symbolic_architecture(all_modules: list[str], tag: str = "e", edge_fn=None, no_var=(), level_limit=None):
    """Real EvaluableArchitectureGraph(NetworkxGraph(all_modules, [])) whose DiGraph is then replaced."""
    from pytestarch.eval_structure.evaluable_graph import EvaluableArchitectureGraph
    from pytestarch.eval_structure.networkxgraph import NetworkxGraph

    g = NetworkxGraph(list(all_modules), [], level_limit)
    sym = SymDiGraph(inner_digraph(g), tag=tag, edge_fn=edge_fn, no_var=no_var)
    set_inner_digraph(g, sym)
    return EvaluableArchitectureGraph(g), sym


def real_architecture(all_modules: list[str], edges: Iterable[tuple[str, str]], level_limit=None):
    """Concrete architecture on the real stack, for stub validation and replay."""
    from pytestarch.eval_structure.evaluable_graph import EvaluableArchitectureGraph
    from pytestarch.eval_structure.networkxgraph import NetworkxGraph
    from pytestarch.eval_structure_generation.file_import.import_types import AbsoluteImport

    imports = [AbsoluteImport(x, y) for x, y in edges]
    return EvaluableArchitectureGraph(NetworkxGraph(list(all_modules), imports, level_limit))
