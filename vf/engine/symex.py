"""SYMEX: a z3-backed fork engine that executes the real repository code.

Symbolic inputs are handed to the real code as proxy objects (``SymBool``) or asked for through
``Engine.branch`` / ``Engine.choice``.  Wherever Python needs a concrete value the engine *forks*: it
records the decision on the current path and later re-executes the harness from the start with the other
value(s) (depth first).  The result of exploring one harness is a hash-consed **decision tree** whose
inner nodes are the symbolic variables the code inspected and whose leaves are the concrete outcomes the
real code produced.  ``Summary.formula(pred)`` turns that tree into the exact z3 term "the real code's
outcome satisfies pred" as a function of *all* symbolic inputs; the property is then decided by ONE z3
query per harness instance over all variables, inspected or not.

No per-path solver calls are made: all variables handed out by this engine are independent atoms
(compound conditions are built by the stubs out of atoms with Python's own short-circuiting), so both
values of an undecided atom are always feasible.
"""

from __future__ import annotations

import sys
import time
from typing import Any, Callable, Hashable

import z3


class OverBudget(BaseException):
    """The per-instance path cap was hit: the instance is *not* counted as passed."""


class Nondeterminism(BaseException):
    """Re-execution did not reproduce the recorded decisions: harness error."""


class AssumeFailed(BaseException):
    """Raised by Engine.assume on paths outside the assumed input space (BaseException so that the
    code under test, which catches at most Exception, cannot swallow it)."""


IGNORE = ("__IGNORE__",)


class Engine:
    __slots__ = ("prefix", "trace", "assign", "arity", "runs", "forks")

    def __init__(self) -> None:
        self.prefix: list = []
        self.trace: list = []
        self.assign: dict = {}
        self.arity: dict = {}
        self.runs = 0
        self.forks = 0

    # -- called from stubs / harnesses ---------------------------------------------------------
    def branch(self, key: Hashable, n: int = 2) -> int:
        a = self.assign.get(key)
        if a is not None:
            return a
        i = len(self.trace)
        if i < len(self.prefix):
            k, v, n0 = self.prefix[i]
            if k != key:
                raise Nondeterminism(f"expected decision on {k!r}, got {key!r}")
        else:
            v = 0
        self.trace.append((key, v, n))
        self.assign[key] = v
        return v

    def choice(self, key: Hashable, n: int) -> int:
        if n <= 1:
            return 0
        return self.branch(key, n)

    def assume(self, cond: Any) -> None:
        if not cond:
            raise AssumeFailed()

    def fixed(self, key: Hashable) -> int | None:
        return self.assign.get(key)


ENGINE = Engine()


class SymBool:
    """Proxy for a symbolic Boolean atom; its truth value is asked where the real code branches."""

    __slots__ = ("key",)

    def __init__(self, key: Hashable) -> None:
        self.key = key

    def __bool__(self) -> bool:
        return ENGINE.branch(self.key) == 1


# ---------------------------------------------------------------------------------------------------
# decision trees


class Node:
    __slots__ = ("key", "children", "outcome", "_id")

    def __init__(self, key, children, outcome, _id):
        self.key = key
        self.children = children
        self.outcome = outcome
        self._id = _id

    @property
    def is_leaf(self) -> bool:
        return self.children is None


class Summary:
    """Decision-tree summary of one harness instance."""

    def __init__(self) -> None:
        self._leaves: dict = {}
        self._inner: dict = {}
        self.root: Node | None = None
        self.paths = 0
        self.forks = 0
        self.keys_seen: dict = {}  # key -> arity
        self.explore_s = 0.0
        self.sample_paths: list = []

    # construction ---------------------------------------------------------------------------
    def leaf(self, outcome) -> Node:
        n = self._leaves.get(outcome)
        if n is None:
            n = Node(None, None, outcome, len(self._leaves) + len(self._inner))
            self._leaves[outcome] = n
        return n

    def mk(self, key, children: tuple) -> Node:
        first = children[0]
        if all(c is first for c in children):
            return first
        k = (key, tuple(c._id for c in children))
        n = self._inner.get(k)
        if n is None:
            n = Node(key, children, None, len(self._leaves) + len(self._inner))
            self._inner[k] = n
        return n

    # queries --------------------------------------------------------------------------------
    def outcomes(self) -> list:
        """All distinct outcomes reachable in the reduced tree."""
        seen, out, stack = set(), [], [self.root]
        while stack:
            n = stack.pop()
            if n._id in seen:
                continue
            seen.add(n._id)
            if n.is_leaf:
                out.append(n.outcome)
            else:
                stack.extend(n.children)
        return out

    def keys_in_tree(self) -> set:
        seen, keys, stack = set(), set(), [self.root]
        while stack:
            n = stack.pop()
            if n._id in seen:
                continue
            seen.add(n._id)
            if not n.is_leaf:
                keys.add(n.key)
                stack.extend(n.children)
        return keys

    def formula(self, pred: Callable[[Any], bool], var: Callable[[Hashable, int], Any]):
        """z3 Bool term: 'the outcome of the real code satisfies pred' over the symbolic inputs.
        var(key, arity) returns the z3 Bool (arity 2) or Int (arity n) for a key."""
        memo: dict = {}
        T, F = z3.BoolVal(True), z3.BoolVal(False)

        def rec(n: Node):
            r = memo.get(n._id)
            if r is not None:
                return r
            if n.is_leaf:
                r = T if pred(n.outcome) else F
            else:
                ar = len(n.children)
                v = var(n.key, ar)
                if ar == 2:
                    lo, hi = rec(n.children[0]), rec(n.children[1])
                    if lo is hi:
                        r = lo
                    elif hi is T and lo is F:
                        r = v
                    elif hi is F and lo is T:
                        r = z3.Not(v)
                    else:
                        r = z3.If(v, hi, lo)
                else:
                    r = rec(n.children[ar - 1])
                    for i in range(ar - 2, -1, -1):
                        r = z3.If(v == i, rec(n.children[i]), r)
            memo[n._id] = r
            return r

        # iterative deepening guard for deep trees
        old = sys.getrecursionlimit()
        sys.setrecursionlimit(max(old, 20000))
        try:
            return rec(self.root)
        finally:
            sys.setrecursionlimit(old)

    def evaluate(self, model: dict):
        """Outcome of the summary under a total/partial concrete assignment (missing keys -> 0)."""
        n = self.root
        while not n.is_leaf:
            n = n.children[int(model.get(n.key, 0))]
        return n.outcome


def explore(
    fn: Callable[[], Any],
    max_paths: int,
    sample_every: int = 0,
    on_leaf: Callable[[dict, Any], None] | None = None,
) -> Summary:
    """Run ``fn`` on every feasible path.  fn() returns a hashable outcome (it must catch the
    exceptions it wants to turn into outcomes; BaseExceptions of the engine pass through)."""
    eng = ENGINE
    summ = Summary()
    t0 = time.perf_counter()

    def run(prefix):
        eng.prefix = prefix
        eng.trace = []
        eng.assign = {}
        summ.paths += 1
        if summ.paths > max_paths:
            raise OverBudget()
        try:
            outcome = fn()
        except AssumeFailed:
            outcome = IGNORE
        trace = eng.trace
        if len(trace) < len(prefix):
            raise Nondeterminism("path ended before the recorded decisions were consumed")
        if on_leaf is not None:
            on_leaf(eng.assign, outcome)
        if sample_every and (summ.paths % sample_every == 1 or sample_every == 1):
            if len(summ.sample_paths) < 64:
                summ.sample_paths.append((dict(eng.assign), outcome))
        return outcome, trace

    def rec(prefix):
        outcome, trace = run(prefix)
        node = summ.leaf(outcome)
        for i in range(len(trace) - 1, len(prefix) - 1, -1):
            key, v, n = trace[i]
            summ.keys_seen[key] = n
            summ.forks += 1
            children = [None] * n
            children[v] = node
            head = trace[:i]
            for alt in range(n):
                if alt != v:
                    children[alt] = rec(head + [(key, alt, n)])
            node = summ.mk(key, tuple(children))
        return node

    old = sys.getrecursionlimit()
    sys.setrecursionlimit(max(old, 10000))
    try:
        summ.root = rec([])
    finally:
        sys.setrecursionlimit(old)
        eng.prefix, eng.trace, eng.assign = [], [], {}
    summ.explore_s = time.perf_counter() - t0
    return summ


# ---------------------------------------------------------------------------------------------------
# z3 helpers


class VarPool:
    """Maps engine keys to z3 constants (Bool for arity 2, bounded Int otherwise)."""

    def __init__(self, tag: str = "") -> None:
        self.tag = tag
        self.vars: dict = {}
        self.domain: list = []

    def __call__(self, key, arity: int = 2):
        v = self.vars.get(key)
        if v is None:
            name = f"{self.tag}{key}"
            if arity == 2:
                v = z3.Bool(name)
            else:
                v = z3.Int(name)
                self.domain.append(z3.And(v >= 0, v < arity))
            self.vars[key] = v
        return v

    def model_to_assign(self, model) -> dict:
        out = {}
        for key, v in self.vars.items():
            val = model.eval(v, model_completion=True)
            if z3.is_bool(v):
                out[key] = 1 if z3.is_true(val) else 0
            else:
                out[key] = val.as_long()
        return out


class Solver:
    """One live z3 solver per process; counts queries and time.  `unknown` is inconclusive."""

    def __init__(self, timeout_ms: int = 120000) -> None:
        self.s = z3.Solver()
        self.s.set("timeout", timeout_ms)
        self.queries = 0
        self.unsat = 0
        self.sat = 0
        self.unknown = 0
        self.time_s = 0.0

    def check(self, *assertions):
        """Returns ('unsat', None) | ('sat', model) | ('unknown', None)."""
        t0 = time.perf_counter()
        self.s.push()
        try:
            for a in assertions:
                self.s.add(a)
            r = self.s.check()
            self.queries += 1
            rs = str(r)
            if rs == "unsat":
                self.unsat += 1
                return "unsat", None
            if rs == "sat":
                self.sat += 1
                return "sat", self.s.model()
            self.unknown += 1
            return "unknown", None
        finally:
            self.s.pop()
            self.time_s += time.perf_counter() - t0

    def stats(self) -> dict:
        return {
            "queries": self.queries,
            "queries_unsat": self.unsat,
            "queries_sat": self.sat,
            "queries_unknown": self.unknown,
            "solver_s": round(self.time_s, 3),
        }
