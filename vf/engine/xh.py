"""XH: CrossHair on leaf kernels.

A kernels module (vf/kernels/kNN.py) defines KERNELS: list of dicts
   name      function name
   sig       "(a: str, b: str) -> bool"
   pre       list of PEP-316 precondition expressions; "{N}" is replaced by the bound of the current rung
   post      postcondition expression over `_` and the arguments (the oracle)
   raises    optional list of exception names the kernel may legitimately raise
   body      function body (calls the REAL repository function on the symbolic arguments)
   ladder    list of bounds N, tried in order until one is confirmed
   timeout   per-condition timeout in seconds
   imports   import lines for the generated module
   requires  optional list of "module:attr.path" symbols that must exist (else skipped_missing_symbol)
   describe  optional format string for the violation text
The runner writes each kernel and its reachability twin (`post: False`) into a scratch module, runs
`crosshair check --report_all --per_condition_timeout T file.py:LINE` for both in parallel and reads:
   Confirmed over all paths      -> holds for all inputs satisfying the preconditions
   counterexample                -> re-executed concretely (no CrossHair) against the real code; reported only if
                                    the postcondition is really false
   Not confirmed / Unable to meet precondition -> inconclusive -> next rung; no rung confirmed -> harness error
   twin not refuted              -> vacuous -> harness error
"""

from __future__ import annotations

import ast
import importlib
import importlib.util
import os
import re
import shutil
import subprocess
import sys
import tempfile
import textwrap
import time
from concurrent.futures import ThreadPoolExecutor

VERIF = os.path.dirname(os.path.dirname(os.path.dirname(os.path.abspath(__file__))))
REPO_SRC = os.path.join(os.environ.get("VERIF_REPO", "/repo"), "src")

_CEX = re.compile(r"error: .*?when calling (\w+)\((.*?)\)(?: \(which returns .*\))?\s*$")


def render(k: dict, N, twin: bool) -> str:
    name = k["name"] + ("_twin" if twin else "")
    doc = []
    for p in k.get("pre", []):
        doc.append("pre: " + p.replace("{N}", str(N)))
    if k.get("raises") and not twin:
        doc.append("raises: " + ", ".join(k["raises"]))
    doc.append("post: " + ("False" if twin else k["post"].replace("{N}", str(N))))
    body = textwrap.dedent(k["body"]).strip("\n").replace("{N}", str(N))
    src = f"def {name}{k['sig']}:\n    \"\"\"\n" + "".join(f"    {d}\n" for d in doc) + '    """\n' + textwrap.indent(body, "    ") + "\n"
    return src


def module_source(k: dict, N) -> tuple[str, int, int]:
    head = "import vf.kernels._xhfix  # noqa: F401\n" + "\n".join(k.get("imports", [])) + "\n\n" + textwrap.dedent(k.get("helpers", "")) + "\n\n"
    a = render(k, N, False)
    line_a = head.count("\n") + 1
    b = render(k, N, True)
    line_b = line_a + a.count("\n") + 2
    return head + a + "\n\n" + b, line_a, line_b


def _symbol_exists(spec: str) -> bool:
    mod, _, path = spec.partition(":")
    try:
        obj = importlib.import_module(mod)
        for part in path.split("."):
            if part:
                obj = getattr(obj, part)
        return True
    except Exception:  # noqa: BLE001
        return False


def _crosshair(path: str, line: int, timeout: float, cwd: str) -> tuple[str, str, float]:
    env = dict(os.environ)
    env["PYTHONPATH"] = f"{cwd}:{VERIF}:{REPO_SRC}"
    env["PYTHONDONTWRITEBYTECODE"] = "1"
    t0 = time.time()
    try:
        p = subprocess.run(
            [sys.executable, "-m", "crosshair", "check", "--report_all", "--per_condition_timeout", str(timeout), f"{path}:{line}"],
            capture_output=True, text=True, cwd=cwd, env=env, timeout=timeout * 3 + 60,
        )
        out = p.stdout + p.stderr
    except subprocess.TimeoutExpired:
        out = "TIMEOUT"
    dt = time.time() - t0
    if "Confirmed over all paths" in out:
        return "confirmed", out, dt
    if "error:" in out and "when calling" in out:
        return "counterexample", out, dt
    if "Unable to meet precondition" in out:
        return "unmet-precondition", out, dt
    if "Not confirmed" in out:
        return "not-confirmed", out, dt
    return "inconclusive", out, dt


def parse_counterexample(out: str):
    for ln in out.splitlines():
        m = _CEX.search(ln)
        if m:
            try:
                args = ast.literal_eval("(" + m.group(2) + ",)")
            except Exception:  # noqa: BLE001
                return m.group(1), None, ln
            return m.group(1), list(args), ln
    return None, None, out[-300:]


def concrete_check(k: dict, N, args: list, scratch: str):
    """Re-executes the kernel on concrete arguments in this interpreter (no CrossHair) and evaluates pre/post."""
    src, _, _ = module_source(k, N)
    path = os.path.join(scratch, f"replay_{k['name']}.py")
    with open(path, "w") as f:
        f.write(src)
    spec = importlib.util.spec_from_file_location(f"replay_{k['name']}", path)
    mod = importlib.util.module_from_spec(spec)
    spec.loader.exec_module(mod)
    fn = getattr(mod, k["name"])
    names = [a.arg for a in ast.parse(f"def f{k['sig']}: pass").body[0].args.args]
    env = dict(mod.__dict__)
    env.update(dict(zip(names, args)))
    for p in k.get("pre", []):
        if not eval(p.replace("{N}", str(N)), env):  # noqa: S307
            return True, "precondition false on the reported arguments", None
    try:
        ret = fn(*args)
    except Exception as e:  # noqa: BLE001
        if type(e).__name__ in k.get("raises", []):
            return True, f"raises declared {type(e).__name__}", None
        return False, f"raises {type(e).__name__}: {e}", None
    env["_"] = ret
    ok = bool(eval(k["post"].replace("{N}", str(N)), env))  # noqa: S307
    return ok, f"returns {ret!r}", ret


def _interface_changed(text: str) -> bool:
    t = text
    return (t.startswith("raises TypeError") and ("argument" in t or "not callable" in t or "not subscriptable" in t)) or t.startswith("raises AttributeError") or t.startswith("raises ImportError") or t.startswith("raises ModuleNotFoundError")


def run_kernel(k: dict, tier: str, scratch: str) -> dict:
    rec = {"kernel": k["name"], "bound_confirmed": None, "verdict": None, "seconds": 0.0, "rungs": []}
    out = {"kernels": [rec], "errors": [], "violations": [], "replays": 0, "paths": 0, "forks": 0, "queries": 0}
    for req in k.get("requires", []):
        if not _symbol_exists(req):
            rec["verdict"] = "skipped_missing_symbol"
            rec["missing"] = req
            return out
    ladder = k["ladder"] if tier == "thorough" or len(k["ladder"]) == 1 else k["ladder"][1:] if k.get("quick_skip_first") else k["ladder"]
    timeout = k.get("timeout", 60) * (2 if tier == "thorough" else 1)
    # CrossHair's per-condition budget is wall-clock time: stretch it on a loaded machine (up to 4x)
    try:
        timeout = int(timeout * max(1.0, min(4.0, os.getloadavg()[0] / (os.cpu_count() or 1))))
    except OSError:
        pass
    for N in ladder:
        src, la, lb = module_source(k, N)
        fname = f"{k['name']}_{str(N).replace(' ', '').replace(',', '_').replace('(', '').replace(')', '')}.py"
        path = os.path.join(scratch, fname)
        with open(path, "w") as f:
            f.write(src)
        with ThreadPoolExecutor(2) as ex:
            fa = ex.submit(_crosshair, path, la + 1, timeout, scratch)
            fb = ex.submit(_crosshair, path, lb + 1, min(timeout, 30), scratch)
            va, oa, ta = fa.result()
            vb, ob, tb = fb.result()
        rec["seconds"] += ta
        rec["rungs"].append({"bound": N, "verdict": va, "twin": vb, "seconds": round(ta, 1)})
        out["queries"] += 2
        if vb != "counterexample":
            out["errors"].append(f"kernel {k['name']} bound {N}: reachability twin not refuted ({vb}) - vacuous or unreachable")
            rec["verdict"] = "vacuous"
            return out
        if va == "confirmed":
            rec["bound_confirmed"] = N
            rec["verdict"] = "Confirmed over all paths"
            out["paths"] += 1
            out["forks"] += 1
            return out
        if va == "counterexample":
            fn_name, args, line = parse_counterexample(oa)
            if args is None:
                out["errors"].append(f"kernel {k['name']}: cannot parse counterexample: {line}")
                rec["verdict"] = "unparsed-counterexample"
                return out
            ok, text, _ = concrete_check(k, N, args, scratch)
            out["replays"] += 1
            if not ok and _interface_changed(text):
                # the private function the kernel calls no longer has the interface the kernel was written for
                # (renamed parameter, other arity, moved attribute): the kernel does not apply to this tree; the
                # property falls back to its SYMEX instances (DESIGN 3.2), nothing is reported
                rec["verdict"] = "skipped_interface_changed"
                rec["missing"] = text[:200]
                return out
            if ok:
                out["errors"].append(f"kernel {k['name']} bound {N}: counterexample {args} does not reproduce concretely ({text})")
                rec["verdict"] = "non-reproducing"
                return out
            rec["verdict"] = "counterexample"
            rec["counterexample"] = args
            if k.get("public"):
                # confirm through the public API on the unpatched code (no CrossHair, no kernel shims)
                pub = getattr(importlib.import_module(k["_module"]), k["public"])
                ok2, text2 = pub(*args)
                out["replays"] += 1
                if ok2:
                    out["errors"].append(f"kernel {k['name']} bound {N}: counterexample {args} ({text}) is not visible through the public API ({text2}); kernel precondition too weak")
                    rec["verdict"] = "not-public"
                    return out
                text = text2
            desc = k.get("describe", "{name}{args}: {text}; expected: {post}")
            payload = {
                "kind": "kernel", "module": k["_module"], "kernel": k["name"], "bound": N, "args": args,
                "text": desc.format(name=k["name"], args=tuple(args), text=text, post=k["post"]),
                "signature": {"kernel": k["name"], "class": k.get("classify", lambda a: "")(args) if callable(k.get("classify")) else ""},
            }
            out["violations"].append(payload)
            return out
        # inconclusive: next rung
    # neither confirmed nor refuted within the budget at any rung (the reachability twin was refuted, so the kernel is
    # not vacuous): the kernel is OUTSIDE this run's claim - listed under skipped_over_budget with its rungs, never
    # counted as confirmed.  (CrossHair can lose its grip on a leaf function after a behaviour-preserving rewrite,
    # e.g. when the new code hashes the symbolic string; the property then rests on its SYMEX instances, whose
    # universes hold the adversarial concrete names.)
    rec["verdict"] = "inconclusive-at-every-rung"
    out["inconclusive"] = [f"kernel {k['name']}: inconclusive at bounds {ladder}: {rec['rungs']}"]
    return out


def load_kernels(module: str) -> list[dict]:
    mod = importlib.import_module(module)
    ks = []
    for k in mod.KERNELS:
        k = dict(k)
        k["_module"] = module
        ks.append(k)
    return ks


def run_kernels(module: str, tier: str, names: list[str] | None = None) -> dict:
    """Runs all kernels of a module sequentially (callers parallelise across kernels via work items)."""
    scratch = tempfile.mkdtemp(prefix="xh_", dir=os.environ.get("VERIF_SCRATCH"))
    agg = {"kernels": [], "errors": [], "violations": [], "replays": 0, "paths": 0, "forks": 0, "queries": 0, "functions": set(), "samples": []}
    try:
        for k in load_kernels(module):
            if names and k["name"] not in names:
                continue
            r = run_kernel(k, tier, scratch)
            for key in ("kernels", "errors", "violations"):
                agg[key].extend(r[key])
            if r.get("inconclusive"):
                agg["over_budget"] = True
                agg["label"] = "; ".join(r["inconclusive"])
            for key in ("replays", "paths", "forks", "queries"):
                agg[key] += r[key]
            agg["functions"].update(k.get("functions", []))
            agg["samples"].append({"kernel": k["name"], "verdict": r["kernels"][0]["verdict"], "bound": r["kernels"][0]["bound_confirmed"], "pre": k.get("pre"), "post": k["post"]})
    finally:
        shutil.rmtree(scratch, ignore_errors=True)
    agg["queries_unsat"] = sum(1 for k in agg["kernels"] if k["verdict"] == "Confirmed over all paths")
    return agg


def kernel_names(module: str) -> list[str]:
    return [k["name"] for k in importlib.import_module(module).KERNELS]


def replay_kernel(payload: dict):
    scratch = tempfile.mkdtemp(prefix="xhr_", dir=os.environ.get("VERIF_SCRATCH"))
    try:
        ks = {k["name"]: k for k in load_kernels(payload["module"])}
        k = ks[payload["kernel"]]
        ok, text, _ = concrete_check(k, payload["bound"], payload["args"], scratch)
        if k.get("public"):
            ok, text = getattr(importlib.import_module(k["_module"]), k["public"])(*payload["args"])
        return ok, f"kernel {k['name']}{tuple(payload['args'])}: {text}; postcondition: {k['post']}", {"text": text}
    finally:
        shutil.rmtree(scratch, ignore_errors=True)
