"""Work-around for a defect in crosshair-tool 0.0.110, imported by every generated kernel module.

``SymbolicBoundedIntTuple._create_up_to(size)`` computes ``num_to_add = size - len(created_vars)`` and slices its
queue of pre-allocated variables with it; when ``size`` is smaller than the number of variables already
created (iteration restarting from index 0 after ``==`` has queued variables) the negative slice moves queued
variables into the created list out of order, and a later ``<`` between the two strings is evaluated on the
wrong characters (reproduced: ``if p == m: ...; return m < p`` with ``m == p + ".x"`` returned True).  The guard
below makes the call a no-op when nothing has to be created, which is what the function means."""

from crosshair.libimpl import builtinslib as _B

if not getattr(_B.SymbolicBoundedIntTuple, "_vf_fixed", False):
    _orig = _B.SymbolicBoundedIntTuple._create_up_to

    def _create_up_to(self, size):
        if size <= len(self._created_vars):
            return
        _orig(self, size)

    _B.SymbolicBoundedIntTuple._create_up_to = _create_up_to
    _B.SymbolicBoundedIntTuple._vf_fixed = True
