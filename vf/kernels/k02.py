"""CrossHair kernels for C02: relative-import resolution, parent-module enumeration and the root-prefix
adjustment with symbolic names."""

HELPERS = '''
def wf(s, n):
    return 1 <= len(s) <= n and all(c in "ab." for c in s) and not s.startswith(".") and not s.endswith(".") and ".." not in s

def drop(importer, level):
    """the importer's package `level` steps up: drop `level` trailing components"""
    parts = importer.split(".")
    return ".".join(parts[: len(parts) - level])
'''

KERNELS = [
    {
        "name": "relative_import_resolution",
        "imports": ["from pytestarch.eval_structure_generation.file_import.import_types import RelativeImport"],
        "helpers": HELPERS,
        "sig": "(importer: str, module: str, level: int) -> str",
        "pre": ["wf(importer, {N})", "wf(module, 3)", "1 <= level <= 3", "importer.count('.') >= level"],
        # resolved against the importing file's package: level 1 = the package holding the file
        "post": "_ == drop(importer, level) + '.' + module",
        "body": """
            return RelativeImport(importer, module, None, level).importee()
        """,
        "ladder": [7, 6],
        "timeout": 120,
        "functions": ["eval_structure_generation.file_import.import_types:RelativeImport._calculate_importee", "eval_structure.types:get_parent_modules"],
    },
    {
        "name": "relative_import_by_name_only",
        "imports": ["from pytestarch.eval_structure_generation.file_import.import_types import RelativeImport"],
        "helpers": HELPERS,
        "sig": "(importer: str, name: str, level: int) -> str",
        "pre": ["wf(importer, {N})", "wf(name, 2) and '.' not in name", "1 <= level <= 2", "importer.count('.') >= level"],
        "post": "_ == drop(importer, level) + '.' + name",
        "body": """
            return RelativeImport(importer, None, name, level).importee()
        """,
        "ladder": [7, 6],
        "timeout": 120,
        "functions": ["eval_structure_generation.file_import.import_types:RelativeImport._calculate_importee"],
    },
    {
        "name": "parent_modules",
        "imports": ["from pytestarch.eval_structure.types import get_parent_modules"],
        "helpers": HELPERS,
        "sig": "(name: str) -> list",
        "pre": ["wf(name, {N})"],
        "post": "_ == ['.'.join(name.split('.')[:i]) for i in range(1, name.count('.') + 1)]",
        "body": """
            return get_parent_modules(name)
        """,
        "ladder": [7, 6],
        "timeout": 90,
        "functions": ["eval_structure.types:get_parent_modules"],
    },
    {
        "name": "root_prefix_adjustment",
        "imports": ["from pytestarch.eval_structure_generation.file_import.converter import ImportConverter"],
        "helpers": HELPERS,
        "sig": "(name: str, prefix: str, internal: str) -> str",
        "pre": ["wf(name, {N})", "wf(prefix, 3)", "wf(internal, {N} + 4)"],
        "post": "_ == (prefix + '.' + name if prefix + '.' + name == internal else name)",
        "body": """
            return ImportConverter._adjust_with_root_prefix(name, prefix, [internal])
        """,
        "ladder": [5, 4],
        "quick_skip_first": True,
        "timeout": 120,
        "functions": ["eval_structure_generation.file_import.converter:ImportConverter._adjust_with_root_prefix"],
    },
]
