"""CrossHair kernels for C08: the glob-style exclusion pattern, converted by the real
convert_partial_match_to_regex and applied by the real re.match, against the documented glob semantics."""

HELPERS = '''
def alpha(s, n, cs):
    return len(s) <= n and all(c in cs for c in s)

def glob(p, s):
    """literal text matched in full; a leading * allows any prefix, a trailing * any suffix"""
    if p == "*":
        return True
    lead = p.startswith("*")
    trail = p.endswith("*") and len(p) >= 2
    text = p[(1 if lead else 0):(len(p) - 1 if trail else len(p))]
    if lead and trail:
        return text in s
    if lead:
        return s.endswith(text)
    if trail:
        return s.startswith(text)
    return s == text
'''

_BODY = """
    return re.match(convert_partial_match_to_regex(p), s) is not None
"""
_IMPORTS = ["import re", "from pytestarch.utils.partial_match_to_regex_converter import convert_partial_match_to_regex"]


def public(p, s):
    """Through the public filter: FileFilter(Config((converted,))).is_excluded(s)."""
    from pytestarch.eval_structure_generation.file_import.config import Config
    from pytestarch.eval_structure_generation.file_import.file_filter import FileFilter
    from pytestarch.utils.partial_match_to_regex_converter import convert_partial_match_to_regex

    got = FileFilter(Config((convert_partial_match_to_regex(p),))).is_excluded(s)
    if p == "*":
        want = True
    else:
        lead = p.startswith("*")
        trail = p.endswith("*") and len(p) >= 2
        text = p[(1 if lead else 0):(len(p) - 1 if trail else len(p))]
        want = (text in s) if lead and trail else s.endswith(text) if lead else s.startswith(text) if trail else s == text
    return got == want, f"exclusion pattern {p!r} on path {s!r}: excluded={got}, glob semantics say {want}"


KERNELS = [
    {
        "name": "glob_small_alphabet",
        "imports": _IMPORTS,
        "helpers": HELPERS,
        "sig": "(p: str, s: str) -> bool",
        "pre": ["1 <= len(p)", "alpha(p, {N}, 'a*.+')", "alpha(s, {N}, 'a*.+')"],
        "post": "_ == glob(p, s)",
        "body": _BODY,
        "ladder": [3, 2],
        "quick_skip_first": True,
        "timeout": 240,
        "public": "public",
        "functions": ["utils.partial_match_to_regex_converter:convert_partial_match_to_regex"],
    },
    {
        # only ONE leading and ONE trailing '*' are wildcards: runs of asterisks
        "name": "glob_asterisk_runs",
        "imports": _IMPORTS,
        "helpers": HELPERS,
        "sig": "(p: str, s: str) -> bool",
        "pre": ["1 <= len(p)", "alpha(p, {N}, 'a*')", "alpha(s, {N}, 'a*')"],
        "post": "_ == glob(p, s)",
        "body": _BODY,
        "ladder": [4, 3],
        "quick_skip_first": True,
        "timeout": 240,
        "public": "public",
        "functions": ["utils.partial_match_to_regex_converter:convert_partial_match_to_regex"],
    },
    {
        "name": "glob_metacharacters",
        "imports": _IMPORTS,
        "helpers": HELPERS,
        "sig": "(p: str, s: str) -> bool",
        "pre": ["1 <= len(p)", "alpha(p, {N}, '*([' + chr(92) + '$^|?')", "alpha(s, {N}, '*([' + chr(92) + '$^|?')"],
        "post": "_ == glob(p, s)",
        "body": _BODY,
        "ladder": [2],
        "timeout": 240,
        "public": "public",
        "functions": ["utils.partial_match_to_regex_converter:convert_partial_match_to_regex"],
    },
]
