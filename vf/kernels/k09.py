"""CrossHair kernels for C09: node truncation and the level-limit adjustment, names and k symbolic."""

HELPERS = '''
def wf(s, n):
    return 1 <= len(s) <= n and all(c in "ab." for c in s) and not s.startswith(".") and not s.endswith(".") and ".." not in s

def graph(k):
    g = NetworkxGraph.__new__(NetworkxGraph)
    g._level_limit = k
    return g
'''

KERNELS = [
    {
        "name": "flatten_node",
        "imports": ["from pytestarch.eval_structure.networkxgraph import NetworkxGraph"],
        "helpers": HELPERS,
        "sig": "(name: str, k: int) -> str",
        "pre": ["wf(name, {N})", "0 <= k <= 3"],
        # first k+1 dotted components: a prefix of the name that is the whole name when it has at most k dots,
        # and otherwise has exactly k dots and is followed by a dot in the name
        "post": "(_ == name) if name.count('.') <= k else (_.count('.') == k and name.startswith(_ + '.'))",
        "body": """
            return graph(k)._flatten_graph_node(name)
        """,
        "ladder": [7, 6],
        "timeout": 120,
        "requires": ["pytestarch.eval_structure.networkxgraph:NetworkxGraph._flatten_graph_node"],
        "functions": ["eval_structure.networkxgraph:NetworkxGraph._flatten_graph_node"],
    },
    {
        "name": "flatten_node_no_limit",
        "imports": ["from pytestarch.eval_structure.networkxgraph import NetworkxGraph"],
        "helpers": HELPERS,
        "sig": "(name: str) -> str",
        "pre": ["wf(name, {N})"],
        "post": "_ == name",
        "body": """
            return graph(None)._flatten_graph_node(name)
        """,
        "ladder": [7],
        "timeout": 60,
        "requires": ["pytestarch.eval_structure.networkxgraph:NetworkxGraph._flatten_graph_node"],
        "functions": ["eval_structure.networkxgraph:NetworkxGraph._flatten_graph_node"],
    },
    {
        "name": "extra_levels",
        "imports": ["from pytestarch.eval_structure_generation.graph_generation.graph_generator import _add_extra_levels_to_limit_if_root_and_module_path_differ as extra"],
        "helpers": HELPERS,
        "sig": "(k: int, diff: str, same: bool) -> int",
        "pre": ["0 <= k <= 50", "wf(diff, {N})"],
        # module_path == root_path is signalled by the path difference '.'; otherwise one level per component
        "post": "_ == (k if same else k + diff.count('.') + 1)",
        "body": """
            return extra(k, "." if same else diff)
        """,
        "ladder": [7, 5],
        "timeout": 60,
        "requires": ["pytestarch.eval_structure_generation.graph_generation.graph_generator:_add_extra_levels_to_limit_if_root_and_module_path_differ"],
        "functions": ["eval_structure_generation.graph_generation.graph_generator:_add_extra_levels_to_limit_if_root_and_module_path_differ"],
    },
]
