"""CrossHair kernels for C14: every place that decides "is part of" by comparing raw names, with the names
symbolic (well-formed dotted names over {a,b,.}); oracle: dotted-component prefix
    anc(p, m)  :=  m == p or m.startswith(p + ".")
Each counterexample is confirmed through the public API (LayerRule / Rule...import_anything on a real
architecture) before it is reported."""

HELPERS = '''
def wf(s, n):
    return 1 <= len(s) <= n and all(c in "ab." for c in s) and not s.startswith(".") and not s.endswith(".") and ".." not in s

def anc(p, m):
    return m == p or m.startswith(p + ".")

class HF(ModuleNameFilter):
    """ModuleNameFilter with a constant hash: dict keys are then compared by (symbolic) equality instead of
    realising the symbolic name by hashing it."""
    def __hash__(self):
        return 0
'''


def _anc(p, m):
    return m == p or m.startswith(p + ".")


def public_layer_lookup(p, m):
    """Layer L1 lists p, layer L2 lists 'zz.other'; m imports zz.other; 'L1 should not access L2' must fail
    exactly when m belongs to L1, i.e. when p is a dotted-component ancestor-or-self of m."""
    from pytestarch import LayeredArchitecture, LayerRule
    from vf.engine.stubs_graph import real_architecture
    from vf.universes import evaluate

    other = "zz.other"
    nodes = sorted({p, m, other})
    ev = real_architecture(nodes, [(m, other)])
    arch = LayeredArchitecture().layer("L1").containing_modules([p]).layer("L2").containing_modules([other])
    rule = LayerRule().based_on(arch).layers_that().are_named("L1").should_not().access_layers_that().are_named("L2")
    got = evaluate(rule, ev, with_message=False)
    want = "FAIL" if _anc(p, m) else "PASS"
    return got[0] == want, f"layer L1=[{p!r}], L2=[{other!r}], import {m!r} -> {other!r}: 'L1 should not access L2' -> {got}, expected {want} ({m!r} {'is' if _anc(p, m) else 'is not'} part of {p!r})"


def public_layer_nested(p, q, m):
    """Layer L1 lists p and its sub package q, L2 lists 'zz.other'.  A module of L1 (q, or p when m is q) imports m:
    if m is part of p this stays inside L1 and never counts, otherwise it is an access to something that is not L2.
    So 'L1 should not access layers except L2' passes exactly when m is part of p."""
    from pytestarch import LayeredArchitecture, LayerRule
    from vf.engine.stubs_graph import real_architecture
    from vf.universes import evaluate

    other = "zz.other"
    nodes = sorted({p, q, m, other})
    edge = (q, m) if m != q else (p, m)
    ev = real_architecture(nodes, [edge])
    arch = LayeredArchitecture().layer("L1").containing_modules([p, q]).layer("L2").containing_modules([other])
    rule = LayerRule().based_on(arch).layers_that().are_named("L1").should_not().access_layers_except_layers_that().are_named("L2")
    got = evaluate(rule, ev, with_message=True)
    want = "PASS" if _anc(p, m) else "FAIL"
    return got[0] == want, f"layer L1=[{p!r}, {q!r}], L2=[{other!r}], import {edge[0]!r} -> {edge[1]!r}: 'L1 should not access layers except L2' -> {got}, expected {want} ({m!r} {'is' if _anc(p, m) else 'is not'} part of {p!r})"


def public_anything(a, b):
    """subjects [a, b] should_not import_anything, b imports zz: must fail whenever b is a subject that is not a
    sub module of a (and must fail as well when it is: a's sub modules are judged with a)."""
    from pytestarch import Rule
    from vf.engine.stubs_graph import real_architecture
    from vf.universes import evaluate

    nodes = sorted({a, b, "zz"})
    ev = real_architecture(nodes, [(b, "zz")])
    rule = Rule().modules_that().are_named([a, b]).should_not().import_anything()
    got = evaluate(rule, ev, with_message=False)
    return got[0] == "FAIL", f"modules {nodes}, import {b!r} -> 'zz': {[a, b]} should_not import_anything -> {got}, expected FAIL"


KERNELS = [
    {
        "name": "layer_lookup",
        "imports": [
            "from pytestarch.eval_structure.evaluable_architecture import LayerMapping, ModuleNameFilter",
        ],
        "helpers": HELPERS,
        "sig": "(p: str, m: str) -> bool",
        "pre": ["wf(p, {N})", "wf(m, {N})"],
        "post": "_ == anc(p, m)",
        "body": """
            return LayerMapping({"L": [HF(name=p)]}).get_layer_for_module_name(m) == "L"
        """,
        "ladder": [5, 4],
        "timeout": 90,
        "public": "public_layer_lookup",
        "requires": ["pytestarch.eval_structure.evaluable_architecture:LayerMapping.get_layer_for_module_name"],
        "functions": ["eval_structure.evaluable_architecture:LayerMapping.get_layer_for_module_name"],
    },
    {
        "name": "layer_lookup_two_layers",
        "imports": [
            "from pytestarch.eval_structure.evaluable_architecture import LayerMapping, ModuleNameFilter",
        ],
        "helpers": HELPERS,
        "sig": "(p: str, q: str, m: str) -> str",
        "pre": ["wf(p, {N})", "wf(q, {N})", "wf(m, {N})", "not anc(p, q) and not anc(q, p)"],
        "post": "_ == ('P' if anc(p, m) else 'Q' if anc(q, m) else '-')",
        "body": """
            r = LayerMapping({"P": [HF(name=p)], "Q": [HF(name=q)]}).get_layer_for_module_name(m)
            return "-" if r is None else r
        """,
        "ladder": [4, 3],
        "quick_skip_first": True,
        "timeout": 150,
        "requires": ["pytestarch.eval_structure.evaluable_architecture:LayerMapping.get_layer_for_module_name"],
        "functions": ["eval_structure.evaluable_architecture:LayerMapping.get_layer_for_module_name"],
    },
    {
        # one layer listing a package AND one of its own sub packages: every module below the package belongs to it
        "name": "layer_lookup_nested_listing",
        "imports": [
            "from pytestarch.eval_structure.evaluable_architecture import LayerMapping, ModuleNameFilter",
        ],
        "helpers": HELPERS,
        "sig": "(p: str, q: str, m: str) -> bool",
        "pre": ["wf(p, {N} - 2)", "wf(q, {N})", "wf(m, {N})", "q != p and anc(p, q)"],
        "post": "_ == anc(p, m)",
        "body": """
            return LayerMapping({"L": [HF(name=p), HF(name=q)]}).get_layer_for_module_name(m) == "L"
        """,
        "ladder": [5, 4],
        "quick_skip_first": True,
        "timeout": 150,
        "public": "public_layer_nested",
        "requires": ["pytestarch.eval_structure.evaluable_architecture:LayerMapping.get_layer_for_module_name"],
        "functions": ["eval_structure.evaluable_architecture:LayerMapping.get_layer_for_module_name"],
    },
    {
        "name": "anything_subject_dedup",
        "imports": [
            "from pytestarch.query_language.rule import Rule, RuleConfiguration",
            "from pytestarch.eval_structure.evaluable_architecture import ModuleNameFilter",
        ],
        "helpers": HELPERS,
        "sig": "(a: str, b: str) -> bool",
        "pre": ["wf(a, {N})", "wf(b, {N})", "a != b"],
        "post": "_ == (not (b.startswith(a + '.')))",
        "body": """
            cfg = RuleConfiguration(modules_to_check=[ModuleNameFilter(name=a), ModuleNameFilter(name=b)])
            kept = Rule._get_modules_to_check_without_parent_and_submodule_combinations(cfg)
            return any(f.identifier == b for f in kept)
        """,
        "ladder": [5, 4],
        "timeout": 90,
        "public": "public_anything",
        "requires": ["pytestarch.query_language.rule:Rule._get_modules_to_check_without_parent_and_submodule_combinations"],
        "functions": ["query_language.rule:Rule._get_modules_to_check_without_parent_and_submodule_combinations"],
    },
]
