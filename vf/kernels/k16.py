"""CrossHair kernels for C16: the duplicate-module guard, with module names as symbolic strings."""

KERNELS = [
    {
        "name": "layers_duplicate_guard",
        "imports": [
            "from pytestarch import LayeredArchitecture",
            "from pytestarch.query_language.exceptions import ImproperlyConfigured",
        ],
        "sig": "(m1: str, m2: str, as_str1: bool, as_str2: bool) -> bool",
        "pre": ["1 <= len(m1) <= {N}", "1 <= len(m2) <= {N}"],
        "post": "_ == (m1 == m2)",
        "body": '''
            arch = LayeredArchitecture().layer("A").containing_modules(m1 if as_str1 else [m1]).layer("B")
            try:
                arch.containing_modules(m2 if as_str2 else [m2])
            except ImproperlyConfigured:
                return True
            return False
        ''',
        "ladder": [3, 2],
        "timeout": 90,
        "functions": ["query_language.layered_architecture_rule:LayeredArchitecture.containing_modules"],
        "describe": "two layers; first gets module {args[0]!r} (as {'str' if args[2] else 'list'}), second gets {args[1]!r}: second call rejected = {text}; must be rejected iff the names are equal",
    },
    {
        "name": "layers_listed_in_order",
        "imports": ["from pytestarch import LayeredArchitecture"],
        "sig": "(m1: str, m2: str, m3: str, as_str: bool) -> str",
        "pre": ["1 <= len(m1) <= {N}", "1 <= len(m2) <= {N}", "1 <= len(m3) <= {N}", "m1 != m2 and m1 != m3 and m2 != m3"],
        "post": "_ == 'Layered Architecture: Layer A: [' + m1 + ', ' + m2 + ']; Layer B: [' + m3 + ']'",
        "body": '''
            arch = LayeredArchitecture().layer("A").containing_modules([m1, m2]).layer("B").containing_modules(m3 if as_str else [m3])
            return str(arch)
        ''',
        "ladder": [2],
        "timeout": 90,
        "functions": ["query_language.layered_architecture_rule:LayeredArchitecture.__str__"],
    },
]
