"""CrossHair kernels for C17: the label function with module / aliased-module / alias strings symbolic.

The alias map is handed to ``_create_label`` as an association list with dict's ``__getitem__`` contract
(hashing a symbolic string would realise it); every counterexample is confirmed through
``visualize(aliases=<real dict>)`` on a real architecture with the draw spy (``public``)."""

HELPERS = '''
class AL:
    def __init__(self, pairs):
        self.pairs = pairs
    def __getitem__(self, k):
        for a, b in self.pairs:
            if a == k:
                return b
        raise KeyError(k)
    def keys(self):
        return [a for a, _ in self.pairs]

def wf(s, n):
    return 1 <= len(s) <= n and all(c in "ab." for c in s) and not s.startswith(".") and not s.endswith(".") and ".." not in s

def anc(m, name):
    return name == m or name.startswith(m + ".")

def graph():
    return NetworkxGraph.__new__(NetworkxGraph)
'''


def public_one(name, m, alias):
    from vf.engine.stubs_draw import labels_via_public_api

    r = labels_via_public_api(sorted({name, m}), {m: alias})
    want = alias + name[len(m):] if (name == m or name.startswith(m + ".")) else name
    if r[0] != "LABELS":
        return False, f"visualize(aliases={{{m!r}: {alias!r}}}) on modules {sorted({name, m})} raised {r[1]}: {r[2]}"
    got = r[1].get(name)
    return got == want, f"visualize(aliases={{{m!r}: {alias!r}}}) on modules {sorted({name, m})}: label of {name!r} is {got!r}, expected {want!r}"


def public_two(name, m1, m2, a1, a2):
    from vf.engine.stubs_draw import labels_via_public_api

    al = {m1: a1, m2: a2}
    cands = [m for m in (m1, m2) if name == m or name.startswith(m + ".")]
    want = (al[max(cands, key=len)] + name[len(max(cands, key=len)):]) if cands else name
    nodes = sorted({name, m1, m2})
    r = labels_via_public_api(nodes, al)
    if r[0] != "LABELS":
        return False, f"visualize(aliases={al!r}) on modules {nodes} raised {r[1]}: {r[2]}"
    got = r[1].get(name)
    return got == want, f"visualize(aliases={al!r}) on modules {nodes}: label of {name!r} is {got!r}, expected {want!r}"


_IMPORTS = ["from pytestarch.eval_structure.networkxgraph import NetworkxGraph"]

KERNELS = [
    {
        "name": "label_one_alias",
        "imports": _IMPORTS,
        "helpers": HELPERS,
        "sig": "(name: str, m: str, alias: str) -> str",
        "pre": ["wf(name, {N})", "wf(m, {N} - 1)", "len(alias) <= 2"],
        "post": "_ == (alias + name[len(m):] if anc(m, name) else name)",
        "body": """
            return graph()._create_label(name, [m], AL([(m, alias)]))
        """,
        "ladder": [5, 4],
        "timeout": 90,
        "public": "public_one",
        "requires": ["pytestarch.eval_structure.networkxgraph:NetworkxGraph._create_label"],
        "functions": ["eval_structure.networkxgraph:NetworkxGraph._create_label"],
    },
    {
        "name": "label_two_aliases",
        "imports": _IMPORTS,
        "helpers": HELPERS,
        "sig": "(name: str, m1: str, m2: str, a1: str, a2: str) -> str",
        "pre": ["wf(name, {N})", "wf(m1, {N} - 1)", "wf(m2, {N} - 1)", "m1 != m2", "len(a1) <= 1 and len(a2) <= 1"],
        "post": "_ == ((a2 + name[len(m2):] if (anc(m2, name) and (not anc(m1, name) or len(m2) > len(m1))) else a1 + name[len(m1):]) if (anc(m1, name) or anc(m2, name)) else name)",
        "body": """
            al = AL([(m1, a1), (m2, a2)])
            order = sorted(al.keys(), key=lambda n: len(n), reverse=True)
            return graph()._create_label(name, order, al)
        """,
        "ladder": [5, 4],
        "quick_skip_first": True,
        "timeout": 120,
        "public": "public_two",
        "requires": ["pytestarch.eval_structure.networkxgraph:NetworkxGraph._create_label"],
        "functions": ["eval_structure.networkxgraph:NetworkxGraph._create_label"],
    },
]
