"""./check <ID> --tier quick|thorough [--replay FILE]"""

from __future__ import annotations

import argparse
import importlib
import json
import os
import sys


def main() -> int:
    ap = argparse.ArgumentParser()
    ap.add_argument("prop")
    ap.add_argument("--tier", default=os.environ.get("VERIF_TIER", "quick"), choices=["quick", "thorough"])
    ap.add_argument("--replay", default=None)
    ap.add_argument("--only", default=None, help="debug: substring filter on instance labels / part names")
    a = ap.parse_args()
    prop = a.prop.upper()
    try:
        mod = importlib.import_module(f"vf.props.{prop.lower()}")
    except ModuleNotFoundError as e:
        print(f"no check for {prop}: {e}", file=sys.stderr)
        return 3
    if a.replay:
        with open(a.replay, encoding="utf-8") as f:
            payload = json.load(f)
        ok, text = mod.replay(payload)
        print(text)
        if not ok:
            print(f"VIOLATION property={prop} replay={a.replay}")
            return 1
        return 0
    return mod.run(a.tier, a.only)


if __name__ == "__main__":
    sys.exit(main())
