"""Specification automata over fluent-API call histories (C13, C16).  Independent of the implementation:
they only look at the *names and arguments of the calls*.

A vocabulary symbol is (id, method name, argument or NOARG).  An automaton consumes symbols and answers
   step(sym) -> None | 'REJECT' | 'LOOKUP'     (REJECT: configuration error expected at this call;
                                                LOOKUP: lookup error expected at this call)
   final()   -> 'complete' | 'incomplete' | 'contradictory'
"""

from __future__ import annotations

NOARG = "<noarg>"

MODULE_SPEC = {"are_named", "are_sub_modules_of", "have_name_matching", "have_name_containing"}
VERBS = {"should", "should_only", "should_not"}
IMPORT_TYPES = {
    "import_modules_that": (True, False),
    "be_imported_by_modules_that": (False, False),
    "import_modules_except_modules_that": (True, True),
    "be_imported_by_modules_except_modules_that": (False, True),
}
ANYTHING = {"import_anything": True, "be_imported_by_anything": False}


class RuleAutomaton:
    def __init__(self, nxt=None) -> None:
        self.nxt = nxt  # None | 'S' | 'O'
        self.subj = False
        self.obj = False
        self.verbs: set = set()
        self.imp = None
        self.exc = False
        self.anything = False
        self.misordered = False  # an object list was supplied while no subject was known (no claim made)

    def step(self, name: str, arg=NOARG):
        if name == "APPLY":
            # applying an incomplete / contradictory rule must raise; a misordered history carries no claim
            return None if (self.final() == "complete" or self.misordered) else "REJECT"
        if name == "modules_that":
            self.nxt = "S"
        elif name in MODULE_SPEC:
            if self.nxt is None:
                return "REJECT"
            if self.nxt == "S":
                self.subj = True
            else:
                if not self.subj:
                    self.misordered = True
                self.obj = True
        elif name in VERBS:
            self.verbs.add(name)
        elif name in IMPORT_TYPES:
            self.imp, exc = IMPORT_TYPES[name]
            self.exc = self.exc or exc
            self.nxt = "O"
        elif name in ANYTHING:
            self.anything = True
            self.imp = ANYTHING[name]
            self.nxt = "O"
        else:
            raise ValueError(name)
        return None

    def final(self) -> str:
        if not self.subj or not self.verbs or self.imp is None or (not self.obj and not self.anything):
            return "incomplete"
        if "should_not" in self.verbs and len(self.verbs) > 1:
            return "contradictory"
        if self.anything and ("should" in self.verbs or "should_only" in self.verbs):
            return "contradictory"
        return "complete"


LAYER_ACCESS = {
    "access_layers_that": "import_modules_that",
    "be_accessed_by_layers_that": "be_imported_by_modules_that",
    "access_layers_except_layers_that": "import_modules_except_modules_that",
    "be_accessed_by_layers_except_layers_that": "be_imported_by_modules_except_modules_that",
    "access_any_layer": "import_anything",
    "be_accessed_by_any_layer": "be_imported_by_anything",
}


class LayerRuleAutomaton:
    def __init__(self, defined_layers) -> None:
        self.defined = set(defined_layers)
        self.arch = False
        self.inner: RuleAutomaton | None = None

    def step(self, name: str, arg=NOARG):
        if name == "based_on":
            if self.arch:
                return "REJECT"
            self.arch = True
            if arg == "EMPTY_ARCH":
                # a LayeredArchitecture without any layer is an architecture all the same: no layer is defined in it
                self.defined = set()
            return None
        if name == "layers_that":
            if not self.arch:
                return "REJECT"
            self.inner = RuleAutomaton(nxt="S")
            return None
        if self.inner is None:
            return "REJECT"
        if name == "APPLY":
            return self.inner.step("APPLY")
        if name == "are_named":
            layers = arg if isinstance(arg, list) else [arg]
            if self.inner.nxt == "S" and (isinstance(arg, list) or self.inner.subj):
                return "REJECT"  # exactly one subject layer
            if any(l not in self.defined for l in layers):
                return "LOOKUP"
            return self.inner.step("are_named")
        if name in VERBS:
            return self.inner.step(name)
        if name in LAYER_ACCESS:
            return self.inner.step(LAYER_ACCESS[name])
        raise ValueError(name)

    def final(self) -> str:
        if self.inner is None:
            return "incomplete"
        return self.inner.final()


class LayeredArchitectureAutomaton:
    """state: ordered layers, pending layer, module -> layer."""

    def __init__(self) -> None:
        self.layers: list = []  # [name, modules-or-None, kind]
        self.assigned: set = set()

    def pending(self):
        return [l for l in self.layers if l[1] is None]

    def step(self, name: str, arg=NOARG):
        if name in ("with_layer", "READ"):
            return None
        if name == "layer":
            if self.pending():
                return "REJECT"
            if any(l[0] == arg for l in self.layers):
                return "REJECT"
            self.layers.append([arg, None, None])
            return None
        if name == "containing_modules":
            if not self.pending():
                return "REJECT"
            mods = arg if isinstance(arg, list) else [arg]
            if any(m in self.assigned for m in mods):
                return "REJECT"
            if not mods:
                # an empty list supplies no modules: the layer is still waiting for its modules
                return None
            self.pending()[0][1:] = [list(mods), "names"]
            self.assigned.update(mods)
            return None
        if name == "have_modules_with_names_matching":
            if not self.pending():
                return "REJECT"
            self.pending()[0][1:] = [[arg], "regex"]
            # a regex that is literally a module name claims that module: offering the same name to another layer by
            # name afterwards would put it into two layers (the reverse order cannot be judged without a code base)
            self.assigned.add(arg)
            return None
        raise ValueError(name)

    def render(self) -> str:
        parts = [f"Layer {n}: [{', '.join(m or [])}]" for n, m, _ in self.layers]
        return f'Layered Architecture: {"; ".join(parts)}'


class DiagramRuleAutomaton:
    def __init__(self) -> None:
        self.file = None

    def step(self, name: str, arg=NOARG):
        if name == "from_file":
            self.file = arg
        return None

    def final(self) -> str:
        if self.file is None:
            return "incomplete"
        if self.file in ("notags", "endfirst", "startlast"):
            return "incomplete"
        return "complete"
