"""Reference semantics of layer rules (C05) over the abstract logic of vf.oracles.rules."""

from __future__ import annotations

import re
from dataclasses import dataclass

from vf.universes import desc


@dataclass(frozen=True)
class LayerSpec:
    # layers: ((name, kind, payload), ...) kind 'names' -> payload tuple of module names; 'regex' -> (pattern,)
    layers: tuple
    verb: str
    direction: str  # access | accessed
    exc: bool
    subject: str
    objects: tuple = ()
    anything: bool = False
    str_form: bool = False  # pass single module names as str instead of [str]

    def label(self) -> str:
        ls = "; ".join(f"{n}={'re:' if k == 'regex' else ''}{list(p) if k == 'names' else p[0]}" for n, k, p in self.layers)
        o = "any layer" if self.anything else list(self.objects)
        return f"[{ls}] {self.subject} {self.verb} {self.direction}{' except' if self.exc else ''} {o}"

    def as_json(self) -> dict:
        return {"layers": [[n, k, list(p)] for n, k, p in self.layers], "verb": self.verb, "direction": self.direction, "except": self.exc, "subject": self.subject, "objects": list(self.objects), "anything": self.anything, "str_form": self.str_form}

    @staticmethod
    def from_json(d: dict) -> "LayerSpec":
        return LayerSpec(tuple((n, k, tuple(p)) for n, k, p in d["layers"]), d["verb"], d["direction"], d["except"], d["subject"], tuple(d["objects"]), d.get("anything", False), d.get("str_form", False))


def build_architecture(spec: LayerSpec):
    from pytestarch import LayeredArchitecture

    arch = LayeredArchitecture()
    for name, kind, payload in spec.layers:
        d = arch.layer(name)
        if kind == "names":
            if spec.str_form and len(payload) == 1:
                arch = d.containing_modules(payload[0])
            else:
                arch = d.containing_modules(list(payload))
        else:
            arch = d.have_modules_with_names_matching(payload[0])
    return arch


def build_layer_rule(spec: LayerSpec):
    from pytestarch import LayerRule

    r = LayerRule().based_on(build_architecture(spec)).layers_that().are_named(spec.subject)
    r = getattr(r, spec.verb)()
    if spec.anything:
        return r.access_any_layer() if spec.direction == "access" else r.be_accessed_by_any_layer()
    if spec.direction == "access":
        r = r.access_layers_except_layers_that() if spec.exc else r.access_layers_that()
    else:
        r = r.be_accessed_by_layers_except_layers_that() if spec.exc else r.be_accessed_by_layers_that()
    objs = list(spec.objects)
    return r.are_named(objs[0] if len(objs) == 1 else objs)


def layer_members(spec: LayerSpec, nodes) -> dict[str, list[str]]:
    """layer -> all modules of the layer (listed / matched modules and their descendants)."""
    out = {}
    for name, kind, payload in spec.layers:
        listed = list(payload) if kind == "names" else [n for n in nodes if re.match(payload[0], n)]
        mem = []
        for m in listed:
            for d in desc(m, nodes):
                if d not in mem:
                    mem.append(d)
        out[name] = mem
    return out


def verdict(spec: LayerSpec, nodes, L, usable=lambda p: True):
    mem = layer_members(spec, nodes)
    S = mem[spec.subject]
    objs = [spec.subject] if spec.anything else list(spec.objects)
    exc = True if spec.anything else spec.exc
    Os = [mem[o] for o in objs]
    union_o = set().union(*map(set, Os)) if Os else set()
    outs = [b for b in nodes if b not in set(S) and b not in union_o]

    def pair(a, b):
        return (a, b) if spec.direction == "access" else (b, a)

    def acc(O):
        return L.Or(L.atom(*pair(a, b)) for a in S for b in O if a != b and usable(pair(a, b)))

    other = L.Or(L.atom(*pair(a, b)) for a in S for b in outs if usable(pair(a, b)))
    accs = [acc(O) for O in Os]
    v = spec.verb
    if v == "should" and not exc:
        return L.And(accs)
    if v == "should" and exc:
        return other
    if v == "should_only" and not exc:
        return L.And([L.And(accs), L.Not(other)])
    if v == "should_only" and exc:
        return L.And([other, L.And(L.Not(a) for a in accs)])
    if v == "should_not" and not exc:
        return L.And(L.Not(a) for a in accs)
    if v == "should_not" and exc:
        return L.Not(other)
    raise ValueError(spec)


# ---------------------------------------------------------------------------------------------------
# layer-rule violation messages (C03 clauses applied to layer rules)

_LDEP = re.compile(r'^"(?P<a>[^"]*)" \((?P<ta>layer "[^"]*"|no layer)\) (?P<verb>imports|is imported by) "(?P<b>[^"]*)" \((?P<tb>layer "[^"]*"|no layer)\)\.$')
_LMISS = re.compile(r'^Layer "(?P<s>[^"]*)" (?P<verb>does not import|is not imported by) (?P<any>any layer that is not )?(?P<objs>layer "[^"]*"(?:, layer "[^"]*")*)\.$')


def parse_layer_line(line: str):
    m = _LDEP.match(line)
    if m:
        return ("dep", m.group("verb"), m.group("a"), m.group("ta"), m.group("b"), m.group("tb"))
    m = _LMISS.match(line)
    if m:
        objs = tuple(sorted(re.findall(r'layer "([^"]*)"', m.group("objs"))))
        return ("lmissing", "access" if m.group("verb") == "does not import" else "accessed", m.group("s"), bool(m.group("any")), objs)
    return ("unparsed", line)


def layer_records_of(lines) -> frozenset:
    return frozenset(parse_layer_line(ln) for ln in lines)


def expected_layer_records(spec: LayerSpec, nodes, L, usable=lambda p: True) -> dict:
    """record -> formula 'must appear' (given that the rule fails); anything not in the dict must never appear."""
    import itertools

    mem = layer_members(spec, nodes)
    S = mem[spec.subject]
    objs = [spec.subject] if spec.anything else list(spec.objects)
    exc = True if spec.anything else spec.exc
    Os = [mem[o] for o in objs]
    union_o = set().union(*map(set, Os)) if Os else set()
    outs = [b for b in nodes if b not in set(S) and b not in union_o]

    def tag(x):
        for name, members in mem.items():
            if x in members:
                return f'layer "{name}"'
        return "no layer"

    def pair(a, b):
        return (a, b) if spec.direction == "access" else (b, a)

    depverb = "imports" if spec.direction == "access" else "is imported by"
    v = spec.verb
    forbid_edge = (v == "should_not" and not exc) or (v == "should_only" and exc)
    forbid_other = (v == "should_only" and not exc) or (v == "should_not" and exc)
    need_edge = v in ("should", "should_only") and not exc
    need_other = v in ("should", "should_only") and exc
    must: dict = {}

    def add(r, f):
        must[r] = L.Or([must[r], f]) if r in must else f

    if forbid_edge:
        for O in Os:
            for a in S:
                for b in O:
                    if a != b and usable(pair(a, b)):
                        add(("dep", depverb, a, tag(a), b, tag(b)), L.atom(*pair(a, b)))
    if forbid_other:
        for a in S:
            for b in outs:
                if usable(pair(a, b)):
                    add(("dep", depverb, a, tag(a), b, tag(b)), L.atom(*pair(a, b)))
    if need_edge:
        lacks = [L.Not(L.Or(L.atom(*pair(a, b)) for a in S for b in O if a != b and usable(pair(a, b)))) for O in Os]
        n = len(objs)
        for k in range(1, n + 1):
            for idx in itertools.combinations(range(n), k):
                r = ("lmissing", spec.direction, spec.subject, False, tuple(sorted(objs[i] for i in idx)))
                add(r, L.And([lacks[i] if i in idx else L.Not(lacks[i]) for i in range(n)]))
    if need_other:
        other = L.Or(L.atom(*pair(a, b)) for a in S for b in outs if usable(pair(a, b)))
        add(("lmissing", spec.direction, spec.subject, True, tuple(sorted(objs))), L.Not(other))
    return must
