"""Parsing of violation messages into records, and the reference 'which record must appear' formulas (C03)."""

from __future__ import annotations

import itertools
import re

from vf.oracles.rules import edge_pairs, other_pairs, rule_sets
from vf.universes import RuleSpec

_LINE = re.compile(
    r'^(?P<plural>Sub modules of )?"(?P<subj>[^"]*)"(?P<slayer> \((?:layer "[^"]*"|no layer)\))? '
    r"(?P<verb>imports|is imported by|does not import|do not import|is not imported by|are not imported by) "
    r"(?P<any>any module that is not )?(?P<objs>.*)\.$"
)
_OBJ = re.compile(r'^(?P<sub>a sub module of )?"(?P<name>[^"]*)"(?P<layer> \((?:layer "[^"]*"|no layer)\))?$')


def parse_line(line: str):
    """-> record tuple.
    ('dep', verb, X, Y)                      X imports Y / X is imported by Y   (verb in {'imports','is imported by'})
    ('missing', direction, plural, S, any, ((sub?, name), ...))
    ('unparsed', line)
    """
    m = _LINE.match(line)
    if not m:
        return ("unparsed", line)
    objs = []
    for part in m.group("objs").split(", "):
        mo = _OBJ.match(part)
        if not mo:
            return ("unparsed", line)
        objs.append((bool(mo.group("sub")), mo.group("name"), mo.group("layer")))
    verb = m.group("verb")
    if verb in ("imports", "is imported by"):
        if m.group("plural") or m.group("any") or len(objs) != 1 or objs[0][0]:
            return ("unparsed", line)
        return ("dep", verb, m.group("subj"), objs[0][1], m.group("slayer"), objs[0][2])
    direction = "import" if "import" in verb and "imported" not in verb else "imported"
    plural = bool(m.group("plural"))
    if plural != verb.startswith(("do ", "are ")):
        return ("unparsed", line)
    if m.group("slayer") or any(o[2] for o in objs):
        return ("unparsed", line)
    return ("missing", direction, plural, m.group("subj"), bool(m.group("any")), tuple(sorted((o[0], o[1]) for o in objs)))


def records_of(lines) -> frozenset:
    out = []
    for ln in lines:
        r = parse_line(ln)
        if r[0] == "dep":
            r = r[:4]  # module rules: no layer tags expected; keep tags out of the record
        out.append(r)
    return frozenset(out)


def expected_records(spec: RuleSpec, nodes, L, usable):
    """dict record -> formula 'record must appear' for every potential record of the rule, given that the
    rule fails.  Records not in the dict must never appear."""
    S, O = rule_sets(spec, nodes)
    osets = [o for _, o in O]
    exc = True if spec.anything else spec.exc
    v = spec.verb
    dep_verb = "imports" if spec.direction == "import" else "is imported by"
    o_kind_sub = (spec.s_kind if spec.anything else spec.o_kind) == "sub"
    s_plural = spec.s_kind == "sub"
    o_idents = [o for o, _ in O]
    must: dict = {}

    def user_order(pair):
        return pair if spec.direction == "import" else (pair[1], pair[0])

    forbid_edge = (v == "should_not" and not exc) or (v == "should_only" and exc)
    forbid_other = (v == "should_only" and not exc) or (v == "should_not" and exc)
    need_edge = v in ("should", "should_only") and not exc
    need_other = v in ("should", "should_only") and exc

    if forbid_edge:
        for _, sset in S:
            for oset in osets:
                for p in edge_pairs(spec, sset, oset):
                    if usable(p):
                        a, b = user_order(p)
                        r = ("dep", dep_verb, a, b)
                        must[r] = L.Or([must[r], L.atom(*p)]) if r in must else L.atom(*p)
    if forbid_other:
        for _, sset in S:
            for p in other_pairs(spec, sset, osets, nodes):
                if usable(p):
                    a, b = user_order(p)
                    r = ("dep", dep_verb, a, b)
                    must[r] = L.Or([must[r], L.atom(*p)]) if r in must else L.atom(*p)
    if need_edge:
        for s, sset in S:
            lacks = [L.Not(L.Or(L.atom(*p) for p in edge_pairs(spec, sset, oset) if usable(p))) for oset in osets]
            n = len(O)
            for k in range(1, n + 1):
                for idx in itertools.combinations(range(n), k):
                    objs = tuple(sorted((o_kind_sub, o_idents[i]) for i in idx))
                    r = ("missing", spec.direction, s_plural, s, False, objs)
                    cond = L.And([lacks[i] if i in idx else L.Not(lacks[i]) for i in range(n)])
                    must[r] = L.Or([must[r], cond]) if r in must else cond
    if need_other:
        for s, sset in S:
            cond = L.Not(L.Or(L.atom(*p) for p in other_pairs(spec, sset, osets, nodes) if usable(p)))
            objs = tuple(sorted((o_kind_sub, o) for o in o_idents))
            r = ("missing", spec.direction, s_plural, s, True, objs)
            must[r] = cond
    return must
