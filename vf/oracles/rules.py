"""Reference semantics of module rules (C01), written once over an abstract logic so that the same
text yields a z3 formula (Z3Logic) and a concrete evaluator (PyLogic, used on replay).

Notation (DESIGN §4): a filter ``named x`` denotes Desc(x), ``sub modules of x`` denotes Sub(x).
edge(s,o)  = OR e[a,b], a in set(s), b in set(o)             (be-imported-by: e[b,a])
other(s)   = OR e[a,b], a in set(s), b not in set(s), b not in UNION set(o_j)
should:            AND edge          should ... except:       AND_s other
should_only:       AND edge AND AND_s NOT other
should_only except AND_s other AND AND NOT edge
should_not:        AND NOT edge      should_not ... except:   AND_s NOT other
"""

from __future__ import annotations

import z3

from vf.universes import RuleSpec, desc, sub


class Z3Logic:
    def __init__(self, var):
        self.var = var  # (x, y) -> z3 Bool

    def atom(self, x, y):
        return self.var(x, y)

    @staticmethod
    def Or(xs):
        xs = list(xs)
        return z3.Or(*xs) if xs else z3.BoolVal(False)

    @staticmethod
    def And(xs):
        xs = list(xs)
        return z3.And(*xs) if xs else z3.BoolVal(True)

    @staticmethod
    def Not(x):
        return z3.Not(x)


class PyLogic:
    def __init__(self, edges):
        self.edges = set(edges)

    def atom(self, x, y):
        return (x, y) in self.edges

    @staticmethod
    def Or(xs):
        return any(list(xs))

    @staticmethod
    def And(xs):
        return all(list(xs))

    @staticmethod
    def Not(x):
        return not x


def filter_set(kind: str, ident: str, nodes) -> list[str]:
    return desc(ident, nodes) if kind == "named" else sub(ident, nodes)


def rule_sets(spec: RuleSpec, nodes):
    S = [(s, filter_set(spec.s_kind, s, nodes)) for s in spec.subjects]
    if spec.anything:
        # "should not import anything" == "should not import modules except itself".  A subject listed together with
        # one of its own ancestors is part of that ancestor (the library's documented de-duplication of the alias'
        # subject list, pinned by its own unit tests): the batch stands for its top-most members.
        S = [(s, ss) for s, ss in S if not any(o != s and s.startswith(o + ".") for o in spec.subjects)]
        O = list(S)
    else:
        O = [(o, filter_set(spec.o_kind, o, nodes)) for o in spec.objects]
    return S, O


def edge_pairs(spec: RuleSpec, sset, oset):
    """Ordered (importer, importee) pairs that realise 'edge' between a subject set and an object set."""
    if spec.direction == "import":
        return [(a, b) for a in sset for b in oset if a != b]
    return [(b, a) for a in sset for b in oset if a != b]


def other_pairs(spec: RuleSpec, sset, all_osets, nodes):
    union_o = set().union(*all_osets) if all_osets else set()
    ss = set(sset)
    outs = [b for b in nodes if b not in ss and b not in union_o]
    if spec.direction == "import":
        return [(a, b) for a in sset for b in outs]
    return [(b, a) for a in sset for b in outs]


def verdict(spec: RuleSpec, nodes, L, usable=lambda p: True):
    """Formula / bool: the rule passes.  ``usable(pair)`` filters pairs that carry a variable."""
    S, O = rule_sets(spec, nodes)
    osets = [o for _, o in O]
    exc = True if spec.anything else spec.exc

    def edge(sset, oset):
        return L.Or(L.atom(*p) for p in edge_pairs(spec, sset, oset) if usable(p))

    def other(sset):
        return L.Or(L.atom(*p) for p in other_pairs(spec, sset, osets, nodes) if usable(p))

    edges = [edge(s, o) for _, s in S for o in osets]
    others = [other(s) for _, s in S]
    v = spec.verb
    if v == "should" and not exc:
        return L.And(edges)
    if v == "should" and exc:
        return L.And(others)
    if v == "should_only" and not exc:
        return L.And([L.And(edges), L.And(L.Not(o) for o in others)])
    if v == "should_only" and exc:
        return L.And([L.And(others), L.And(L.Not(e) for e in edges)])
    if v == "should_not" and not exc:
        return L.And(L.Not(e) for e in edges)
    if v == "should_not" and exc:
        return L.And(L.Not(o) for o in others)
    raise ValueError(spec)


def ambiguous_pairs(spec: RuleSpec, nodes) -> set:
    """Edges between a member of Sub(X) and X itself for a subject 'sub modules of X' (DESIGN C01):
    the property's wording, the architecture docstring and the code disagree; don't-care."""
    out = set()
    if spec.s_kind == "sub":
        for x in spec.subjects:
            for m in sub(x, nodes):
                out.add((m, x))
                out.add((x, m))
    if spec.anything and len(spec.subjects) > 1:
        # a subject nested inside another subject: an import from the inner one to the rest of the outer one stays
        # inside the (top-most) subject under the joint reading and leaves the inner subject under the per-subject one
        for inner in spec.subjects:
            for outer in spec.subjects:
                if inner != outer and inner.startswith(outer + "."):
                    iset = set(filter_set(spec.s_kind, inner, nodes))
                    for x in iset:
                        for y in filter_set(spec.s_kind, outer, nodes):
                            if y not in iset:
                                out.add((x, y) if spec.direction == "import" else (y, x))
        # batched 'anything': "except itself" read jointly (imports between the subjects allowed) vs one rule per
        # subject (forbidden) - the two documented readings disagree on imports between different subjects only
        sets = [filter_set(spec.s_kind, s, nodes) for s in spec.subjects]
        for i, a in enumerate(sets):
            for j, b in enumerate(sets):
                if i != j:
                    out |= {(x, y) for x in a for y in b if x != y}
    return out
