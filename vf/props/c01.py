"""C01 - module-rule verdicts equal the documented semantics.

SYMEX: the real Rule pipeline on a symbolic import relation; ONE z3 query per instance:
    exists e.  ERROR(e)  or  PASS_code(e) != PASS_oracle(e)        (ambiguous edges fixed to false)
"""

from __future__ import annotations

import itertools
import random

import z3

from vf.engine import runner
from vf.engine.rulesym import SymArch, explore_fn, solver, solver_delta, validate_samples
from vf.oracles.rules import PyLogic, Z3Logic, ambiguous_pairs, verdict
from vf.universes import SHAPES, RuleSpec, build_rule, concrete, evaluate, related, unrelated_filter_sets

PROP = "C01"
CAPS = {"quick": 1 << 14, "thorough": 1 << 18}


def instances(tier: str) -> list[dict]:
    out = []

    def add(tree, naming, max_s, max_o, kinds=("named", "sub"), shapes=SHAPES, alias=True):
        nodes = concrete(tree, naming)
        for sk, S, ok, O in unrelated_filter_sets(nodes, max_s, max_o, kinds):
            for verb, direction, exc in shapes:
                out.append({"tree": tree, "naming": naming, "spec": RuleSpec(verb, direction, exc, sk, S, ok, O).as_json()})
        if alias:
            for sk in kinds:
                for s in nodes:
                    for direction in ("import", "imported"):
                        out.append({"tree": tree, "naming": naming, "spec": RuleSpec("should_not", direction, False, sk, (s,), "named", (), True).as_json()})
            # batched aliases (2-3 unrelated subjects); imports between the subjects are don't-care (two readings)
            for ns in (2, 3):
                for S in itertools.combinations(nodes, ns):
                    if any(related(a, b) for a, b in itertools.combinations(S, 2)):
                        continue
                    for direction in ("import", "imported"):
                        out.append({"tree": tree, "naming": naming, "spec": RuleSpec("should_not", direction, False, "named", S, "named", (), True).as_json()})

    if tier == "quick":
        add("T4", "neutral", 2, 2)
        add("T4", "adv", 2, 2)
        add("T5a", "neutral", 1, 1)
        add("T5b", "adv", 1, 1)
        add("F4", "neutral", 2, 2, kinds=("named",))
    else:
        add("F4", "neutral", 2, 2, kinds=("named",))
        add("F4", "adv", 2, 2, kinds=("named",))
        for nm in ("neutral", "adv"):
            add("T4", nm, 3, 3)
        for t in ("T5a", "T5b", "T5c", "T5d"):
            add(t, "neutral", 2, 2)
            add(t, "adv", 1, 1)
        # six / seven node trees: import direction has small path counts; be-imported-by instances that
        # explode hit the cap and are listed as skipped (outside the run's claim).
        rnd = random.Random(runner.seed())
        for t in ("T6a", "T6b", "T6c"):
            before = len(out)
            add(t, "neutral", 2, 2)
            big = out[before:]
            del out[before:]
            imp = [i for i in big if i["spec"]["direction"] == "import"]
            oth = [i for i in big if i["spec"]["direction"] != "import"]
            out.extend(rnd.sample(imp, min(len(imp), 260)))
            out.extend(rnd.sample(oth, min(len(oth), 12)))
    for i, inst in enumerate(out):
        inst["cap"] = CAPS[tier]
    return out


def concrete_outcome(nodes, spec: RuleSpec, edges):
    from vf.engine.stubs_graph import real_architecture

    return evaluate(build_rule(spec), real_architecture(nodes, edges), with_message=False)


def work(inst: dict) -> dict:
    spec = RuleSpec.from_json(inst["spec"])
    nodes = concrete(inst["tree"], inst["naming"])
    label = f"{inst['tree']}/{inst['naming']}: {spec.label()}"
    arch = SymArch(nodes)
    before = solver().stats()

    def fn():
        return evaluate(build_rule(spec), arch.ev, with_message=False)

    summ, funcs, over = explore_fn(fn, inst["cap"])
    res = {"label": label, "functions": funcs, "variables_total": len(arch.pairs)}
    if over:
        res.update({"over_budget": True, "paths": inst["cap"]})
        return res
    code_pass = summ.formula(lambda o: o[0] == "PASS", arch.pool)
    code_err = summ.formula(lambda o: o[0] == "ERROR", arch.pool)
    oracle = verdict(spec, nodes, Z3Logic(arch.var), usable=arch.usable)
    amb = [p for p in ambiguous_pairs(spec, nodes) if arch.usable(p)]
    assume = [z3.Not(arch.var(*p)) for p in amb]
    st, model = solver().check(*assume, z3.Or(code_err, code_pass != oracle))
    res.update(
        {
            "paths": summ.paths,
            "forks": summ.forks,
            "dont_care_vars": len(arch.pairs) - len(summ.keys_in_tree()),
            "explore_s": summ.explore_s,
            "degenerate": summ.paths >= (1 << len(arch.pairs)) and len(arch.pairs) > 0,
        }
    )
    n, errs = validate_samples(summ, arch, lambda edges: concrete_outcome(nodes, spec, edges))
    res["replays"] = n
    res["errors"] = errs
    if st == "unknown":
        res["errors"].append(f"solver unknown on {label}")
    elif st == "sat":
        edges = arch.model_edges(model)
        payload = {"kind": "rule", "nodes": nodes, "spec": spec.as_json(), "edges": [list(e) for e in edges], "label": label}
        ok, text, detail = replay_detail(payload)
        res["replays"] += 1
        if ok:
            res["errors"].append(f"non-reproducing counterexample (encoding or stub wrong): {label} edges={edges} {text}")
        else:
            payload["observed"] = detail
            payload["signature"] = {"spec": spec.as_json(), "tree": inst["tree"], "naming": inst["naming"]}
            res["violations"] = [payload]
    if summ.paths and len(res.get("samples", [])) == 0 and summ.sample_paths:
        a, o = summ.sample_paths[0]
        res["samples"] = [{"instance": label, "path_edges": arch.edges_of(a), "outcome": list(o), "paths": summ.paths, "vars": len(arch.pairs)}]
    res.update(solver_delta(before))
    return res


def replay_detail(payload: dict):
    spec = RuleSpec.from_json(payload["spec"])
    nodes = payload["nodes"]
    edges = [tuple(e) for e in payload["edges"]]
    got = concrete_outcome(nodes, spec, edges)
    amb = ambiguous_pairs(spec, nodes)
    exp_pass = bool(verdict(spec, nodes, PyLogic([e for e in edges if e not in amb])))
    exp = "PASS" if exp_pass else "FAIL"
    ok = got[0] == exp
    text = f"rule [{spec.label()}] on modules {nodes} with imports {edges}: real code -> {got[0]}{got[1:] if got[0]=='ERROR' else ''}, documented semantics -> {exp}"
    return ok, text, {"real": list(got), "expected": exp}


def replay(payload: dict):
    ok, text, _ = replay_detail(payload)
    return ok, text


def run(tier: str, only: str | None = None) -> int:
    rep = runner.Report(PROP, tier)
    items = instances(tier)
    if only:
        items = [i for i in items if only in f"{i['tree']}/{i['naming']}: {RuleSpec.from_json(i['spec']).label()}"]
    rep.bounds = {
        "trees": sorted({i["tree"] for i in items}),
        "namings": sorted({i["naming"] for i in items}),
        "max_modules": max(len(concrete(i["tree"], i["naming"])) for i in items) if items else 0,
        "path_cap_per_instance": CAPS[tier],
        "shapes": "12 verb x direction x except shapes + import_anything / be_imported_by_anything (single subject, and batches of 2-3 unrelated named subjects with imports between the subjects as don't-care)",
        "filters": "named / sub modules of on either side, subjects and objects pairwise unrelated",
    }
    rep.assumptions = [
        "import edges from a package to its own direct child carry no variable (the real constructor keeps one edge per node pair)",
        "ambiguous edges (member of Sub(X) <-> X for a 'sub modules of X' subject) are fixed to false (DESIGN C01)",
        "SymDiGraph stub validated against real NetworkxGraph on sampled paths and on every solver model",
    ]
    rep.stubs = ["SymDiGraph (networkx.DiGraph inside NetworkxGraph after real hierarchy construction)"]
    runner.run_pool(work, items, rep, chunksize=4)
    return runner.finish(rep)
