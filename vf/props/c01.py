"""C01 - module-rule verdicts equal the documented semantics.

SYMEX: the real Rule pipeline on a symbolic import relation; ONE z3 query per instance:
    exists e.  ERROR(e)  or  PASS_code(e) != PASS_oracle(e)        (ambiguous edges fixed to false)
"""

from __future__ import annotations

import itertools
import json
import os
import random
import subprocess
import sys

import z3

from vf.engine import runner
from vf.engine.rulesym import SymArch, explore_fn, solver, solver_delta, validate_samples
from vf.oracles.rules import PyLogic, Z3Logic, ambiguous_pairs, verdict
from vf.universes import SHAPES, RuleSpec, build_rule, concrete, evaluate, random_forest, random_unrelated_spec, related, side_related_filter_sets, unrelated_filter_sets

PROP = "C01"
CAPS = {"quick": 1 << 14, "thorough": 1 << 18}


def instances(tier: str) -> list[dict]:
    out = []

    def add(tree, naming, max_s, max_o, kinds=("named", "sub"), shapes=SHAPES, alias=True, window_imported=0):
        nodes = concrete(tree, naming)
        wrnd = random.Random(runner.seed() * 5 + len(tree) + len(naming))
        for sk, S, ok, O in unrelated_filter_sets(nodes, max_s, max_o, kinds):
            for verb, direction, exc in shapes:
                spec = RuleSpec(verb, direction, exc, sk, S, ok, O)
                inst = {"tree": tree, "naming": naming, "spec": spec.as_json()}
                if window_imported and direction == "imported":
                    # the be-imported-by searches follow importers transitively and inspect every variable: beyond
                    # the quick tier's path budget on the full relation of a five-module tree -> symbolic window
                    win, bg = sensitive_window(wrnd, nodes, spec, window_imported, force=deep_self_imports(nodes))
                    inst.update({"nodes": nodes, "window": [list(p) for p in win], "background": [list(p) for p in bg]})
                out.append(inst)
        if alias:
            def put(spec):
                inst = {"tree": tree, "naming": naming, "spec": spec.as_json()}
                if window_imported and (spec.direction == "imported" or len(nodes) - len([n for n in nodes if not any(n == s or n.startswith(s + ".") for s in spec.subjects)]) >= 4):
                    # (also 'import anything' of a subject that covers most of the tree: every variable is inspected)
                    win, bg = sensitive_window(wrnd, nodes, spec, window_imported, force=deep_self_imports(nodes))
                    inst.update({"nodes": nodes, "window": [list(p) for p in win], "background": [list(p) for p in bg]})
                out.append(inst)

            for sk in kinds:
                for s in nodes:
                    for direction in ("import", "imported"):
                        put(RuleSpec("should_not", direction, False, sk, (s,), "named", (), True))
            # batched aliases (2-3 unrelated subjects); imports between the subjects are don't-care (two readings)
            for ns in (2, 3):
                for S in itertools.combinations(nodes, ns):
                    if any(related(a, b) for a, b in itertools.combinations(S, 2)):
                        continue
                    for direction in ("import", "imported"):
                        put(RuleSpec("should_not", direction, False, "named", S, "named", (), True))

    def add_side_related(tree, naming, max_s, max_o, kinds=("named",), window=0):
        # a NAMED module listed together with one of its own descendants on ONE side (subjects and objects stay
        # unrelated to each other): every requirement is still judged per subject / per pair, so the reference
        # semantics apply.  ('sub modules of' a module AND of its own descendant in one object list is left out: the
        # code takes the inner parent itself as 'something else' although it is a sub module of the outer one -
        # outside the property's strict region, recorded as an observation in DESIGN 8.4)
        nodes = concrete(tree, naming)
        wrnd = random.Random(runner.seed() * 7 + len(tree))
        for sk, S, ok, O in side_related_filter_sets(nodes, max_s, max_o, kinds):
            for verb, direction, exc in SHAPES:
                spec = RuleSpec(verb, direction, exc, sk, S, ok, O)
                inst = {"tree": tree, "naming": naming, "spec": spec.as_json()}
                if window:
                    # the tree's full relation is too large for the path budget: a window of symbolic pairs around a
                    # seeded concrete relation (as for the larger universes below)
                    win, bg = sensitive_window(wrnd, nodes, spec, window)
                    inst.update({"nodes": nodes, "window": [list(p) for p in win], "background": [list(p) for p in bg]})
                out.append(inst)

    def add_windowed(tree, naming, max_s, max_o, k, kinds=("named", "sub")):
        # trees whose full relation exceeds the path budget: a window of k symbolic pairs that always holds the
        # imports of a package into its own deeper descendants (they stay inside the module, so they must not matter)
        nodes = concrete(tree, naming)
        wrnd = random.Random(runner.seed() * 11 + len(tree) + len(naming))
        for sk, S, ok, O in unrelated_filter_sets(nodes, max_s, max_o, kinds):
            for verb, direction, exc in SHAPES:
                spec = RuleSpec(verb, direction, exc, sk, S, ok, O)
                win, bg = sensitive_window(wrnd, nodes, spec, k, force=deep_self_imports(nodes))
                out.append({"tree": tree, "naming": naming, "nodes": nodes, "window": [list(p) for p in win], "background": [list(p) for p in bg], "spec": spec.as_json()})

    def add_nested_alias(tree, naming, k):
        # 'anything' alias on a batch that lists a module together with one of its own descendants (direct child, or
        # two and more levels down), optionally with an unrelated third subject: the batch stands for its top-most
        # members; every import leaving the top-most subject must be judged and reported, wherever inside it starts
        nodes = concrete(tree, naming)
        wrnd = random.Random(runner.seed() * 13 + len(tree) + len(naming))
        for outer in nodes:
            for inner in nodes:
                if not inner.startswith(outer + "."):
                    continue
                outside = [n for n in nodes if not related(n, outer)]
                if not outside:
                    continue
                batches = [(outer, inner), (inner, outer)] + [(outer, inner, t) for t in outside[:1]]
                for S in batches:
                    for direction in ("import", "imported"):
                        spec = RuleSpec("should_not", direction, False, "named", S, "named", (), True)
                        leave = [((x, y) if direction == "import" else (y, x)) for x in nodes if x == inner or x.startswith(inner + ".") for y in outside]
                        win, bg = sensitive_window(wrnd, nodes, spec, k, force=leave)
                        out.append({"tree": tree, "naming": naming, "nodes": nodes, "window": [list(p) for p in win], "background": [list(p) for p in bg], "spec": spec.as_json()})

    def add_full_batches(naming, sizes):
        # the largest batches the property speaks of (3 subjects x 3 objects = 9 pairs, and 3 x 2, 2 x 3), all pairwise
        # unrelated, either filter kind on either side: six roots with one sub module each and a bystander.  The
        # window holds one import per (subject, object) pair (sub module -> sub module, which lies in 'named' and in
        # 'sub modules of' alike) and three imports to / from the bystander; every other pair is absent.
        nodes = concrete("F6x", naming)
        roots = [n for n in nodes if "." not in n]
        by = roots[-1]
        for ns, no in sizes:
            S, O = tuple(roots[:ns]), tuple(roots[3 : 3 + no])
            child = lambda r: next(n for n in nodes if n.startswith(r + "."))  # noqa: E731
            win = [(child(s_), child(o_)) for s_ in S for o_ in O] + [(child(S[0]), by), (child(S[-1]), by), (by, child(O[0]))]
            if len(win) < 12:
                win += [(child(o_), child(s_)) for s_ in S[:1] for o_ in O][: 12 - len(win)]
            for sk in ("named", "sub"):
                for ok in ("named", "sub"):
                    for verb, direction, exc in SHAPES:
                        spec = RuleSpec(verb, direction, exc, sk, S, ok, O)
                        out.append({"tree": "F6x", "naming": naming, "nodes": nodes, "window": [list(p) for p in win], "background": [], "spec": spec.as_json()})

    if tier == "quick":
        add_nested_alias("T6d", "neutral", 11)
        add_full_batches("neutral", [(3, 3)])
        add_windowed("T5e", "neutral", 1, 1, 10)
        add_windowed("T6c", "adv", 1, 1, 10, kinds=("named",))
        add_side_related("T4n", "neutral", 2, 2)
        add_side_related("T5h", "adv", 2, 2, window=11)
        add("T4", "neutral", 2, 2)
        add("T4", "adv", 2, 2)
        add("T5a", "neutral", 1, 1, window_imported=12)
        add("T5b", "adv", 1, 1, window_imported=12)
        add("F4", "neutral", 2, 2, kinds=("named",))
    else:
        for t in ("T6d", "T6c", "T5c"):
            add_nested_alias(t, "neutral", 13)
        add_nested_alias("T6d", "adv", 13)
        add_full_batches("neutral", [(3, 3), (3, 2), (2, 3)])
        add_full_batches("adv", [(3, 3)])
        for t in ("T5e", "T6c", "T6a"):
            add_windowed(t, "neutral", 2, 2, 13)
            add_windowed(t, "adv", 1, 1, 13)
        for t in ("T4n", "T5b", "T5c", "T5h"):
            add_side_related(t, "neutral", 3, 3, window=0 if t == "T4n" else 13)
            add_side_related(t, "adv", 2, 2, window=0 if t == "T4n" else 13)
        add_side_related("T6a", "neutral", 3, 3, window=13)
        add("F4", "neutral", 2, 2, kinds=("named",))
        add("F4", "adv", 2, 2, kinds=("named",))
        for nm in ("neutral", "adv"):
            add("T4", nm, 3, 3)
        for t in ("T5a", "T5b", "T5c", "T5d"):
            add(t, "neutral", 2, 2)
            add(t, "adv", 1, 1)
        # six / seven node trees: import direction has small path counts; be-imported-by instances that
        # explode hit the cap and are listed as skipped (outside the run's claim).
        rnd = random.Random(runner.seed())
        for t in ("T6a", "T6b", "T6c"):
            before = len(out)
            add(t, "neutral", 2, 2)
            big = out[before:]
            del out[before:]
            imp = [i for i in big if i["spec"]["direction"] == "import"]
            oth = [i for i in big if i["spec"]["direction"] != "import"]
            out.extend(rnd.sample(imp, min(len(imp), 260)))
            out.extend(rnd.sample(oth, min(len(oth), 12)))
    out.extend(big_instances(tier))
    # the same verdicts under the interpreter's optimised mode (python -O / PYTHONOPTIMIZE strips assert statements):
    # the exploration of these instances runs in a `python -O` child process
    t4 = concrete("T4", "neutral")
    for verb, direction, exc in SHAPES:
        for sk, ok in (("named", "named"), ("sub", "named")) if tier == "quick" else (("named", "named"), ("sub", "named"), ("named", "sub")):
            S = (t4[1],) if sk == "named" else (t4[0],)
            spec = RuleSpec(verb, direction, exc, sk, S, ok, (t4[2],) if ok == "named" else (t4[0],))
            if sk == "sub" and ok == "sub":
                continue
            out.append({"tree": "T4", "naming": "neutral", "spec": spec.as_json(), "pyopt": True})
    out.append({"tree": "T4", "naming": "neutral", "spec": RuleSpec("should_not", "import", False, "named", (t4[1],), "named", (), True).as_json(), "pyopt": True})
    for i, inst in enumerate(out):
        inst["cap"] = CAPS[tier]
    return out


_CHILD = "import json, sys; from vf.props import c01; r = c01.{fn}(json.loads(sys.argv[1])); print('RESULT ' + json.dumps(r, default=lambda o: sorted(o) if isinstance(o, (set, frozenset)) else str(o)))"


def _in_optimised_child(fn: str, arg: dict):
    """Runs c01.<fn>(arg) in a `python -O` child process (same environment) and returns its JSON result."""
    p = subprocess.run([sys.executable, "-O", "-c", _CHILD.format(fn=fn), json.dumps(arg)], capture_output=True, text=True, env=dict(os.environ), cwd=os.path.dirname(os.path.dirname(os.path.dirname(os.path.abspath(__file__)))))
    for ln in p.stdout.splitlines():
        if ln.startswith("RESULT "):
            return json.loads(ln[7:])
    raise RuntimeError(f"python -O child failed: rc={p.returncode} {p.stderr[-400:]}")


def big_instances(tier: str) -> list[dict]:
    """Seeded larger universes: random forests of 8-12 modules (mixed neutral / prefix-sibling component names), a
    random concrete import relation, and a window of 10-13 ordered pairs left symbolic (two thirds of them touching
    the rule's subjects / objects); 1-3 unrelated subjects and objects, any shape, either filter kind."""
    rnd = random.Random(runner.seed() * 1000003 + 17)
    out = []
    n_inst = 120 if tier == "quick" else 2400
    while len(out) < n_inst:
        n = rnd.choice((8, 9, 10, 12))
        nodes = random_forest(rnd, n, max_depth=rnd.choice((3, 4)), roots=rnd.choice((1, 2, 3)))
        got = random_unrelated_spec(rnd, nodes)
        if got is None:
            continue
        sk, S, ok, O = got
        verb, direction, exc = rnd.choice(SHAPES)
        if rnd.random() < 0.12:
            spec = RuleSpec("should_not", direction, False, sk, S[:1], "named", (), True)
        else:
            spec = RuleSpec(verb, direction, exc, sk, S, ok, O)
        k = rnd.choice((10, 11, 12)) if tier == "quick" else rnd.choice((11, 12, 13))
        inner = [p for p in deep_self_imports(nodes) if any(p[0] == m or p[0].startswith(m + ".") or m.startswith(p[0] + ".") for m in S + O)]
        rnd.shuffle(inner)
        win, bg = sensitive_window(rnd, nodes, spec, k, force=inner[:3])
        out.append({"tree": f"R{n}#{len(out)}", "naming": "mixed", "nodes": nodes, "window": [list(p) for p in win], "background": [list(p) for p in bg], "spec": spec.as_json()})
    return out


def deep_self_imports(nodes) -> list:
    """Ordered pairs (package, one of its own descendants two or more levels down): imports that stay inside a module
    and must never influence a verdict, but that every walk over the package's sub-tree passes by."""
    return [(x, y) for x in nodes for y in nodes if y.startswith(x + ".") and "." in y[len(x) + 1 :]]


def sensitive_window(rnd, nodes, spec: RuleSpec, k: int, force=()):
    """Instance selection only (the reference semantics guide WHERE to look, not what is accepted): draw random
    concrete relations until the documented verdict is sensitive to at least one single import, then leave symbolic
    up to k/2 of those sensitive pairs, k/4 further pairs between subject / object / 'something else' modules, and
    random other pairs; everything else keeps its drawn value.  The query then covers all 2^k completions."""
    from vf.oracles.rules import edge_pairs, other_pairs, rule_sets

    pairs = [(x, y) for x in nodes for y in nodes if x != y and not (y.startswith(x + ".") and "." not in y[len(x) + 1 :])]
    S, O = rule_sets(spec, nodes)
    osets = [o for _, o in O]
    relevant = set()
    for _, sset in S:
        for oset in osets:
            relevant |= set(edge_pairs(spec, sset, oset))
        relevant |= set(other_pairs(spec, sset, osets, nodes))
    relevant &= set(pairs)
    amb = ambiguous_pairs(spec, nodes)
    best = None
    for _ in range(40):
        d_rel, d_oth = rnd.choice((0.03, 0.1, 0.3, 0.6, 0.9)), rnd.choice((0.05, 0.15, 0.3))
        A = {p for p in pairs if p not in amb and rnd.random() < (d_rel if p in relevant else d_oth)}
        base = bool(verdict(spec, nodes, PyLogic(A)))
        sens = [p for p in sorted(relevant - amb) if bool(verdict(spec, nodes, PyLogic(A ^ {p}))) != base]
        if best is None or len(sens) > len(best[1]):
            best = (A, sens)
        if len(sens) >= 2:
            break
    A, sens = best
    rnd.shuffle(sens)
    win = [p for p in force if p in set(pairs) and p not in amb][: k // 3]
    win += [p for p in sens if p not in set(win)][: k // 2]
    rel = [p for p in sorted(relevant - amb) if p not in set(win)]
    rnd.shuffle(rel)
    win += rel[: max(k // 4, 0)]
    rest = [p for p in pairs if p not in set(win) and p not in amb]
    rnd.shuffle(rest)
    win += rest[: k - len(win)]
    ws = set(win)
    return sorted(win), sorted(A - ws)


def nodes_of(inst: dict) -> list[str]:
    return inst["nodes"] if "nodes" in inst else concrete(inst["tree"], inst["naming"])


def arch_of(inst: dict, nodes) -> SymArch:
    if "window" in inst:
        return SymArch(nodes, window=[tuple(p) for p in inst["window"]], background=[tuple(p) for p in inst["background"]])
    return SymArch(nodes)


def concrete_outcome(nodes, spec: RuleSpec, edges):
    from vf.engine.stubs_graph import real_architecture

    return evaluate(build_rule(spec), real_architecture(nodes, edges), with_message=False)


def work(inst: dict) -> dict:
    if inst.get("pyopt") and not sys.flags.optimize:
        try:
            res = _in_optimised_child("work", inst)
        except Exception as e:  # noqa: BLE001
            return {"label": f"{inst['tree']}/{inst['naming']} [python -O]", "errors": [str(e)]}
        res["functions"] = set(res.get("functions", ()))
        for v in res.get("violations", []):
            v["pyopt"] = True
            v["label"] = v.get("label", "") + " [python -O]"
        return res
    spec = RuleSpec.from_json(inst["spec"])
    nodes = nodes_of(inst)
    label = f"{inst['tree']}/{inst['naming']}: {spec.label()}" + (" [python -O]" if inst.get("pyopt") else "")
    arch = arch_of(inst, nodes)
    before = solver().stats()

    def fn():
        return evaluate(build_rule(spec), arch.ev, with_message=False)

    summ, funcs, over = explore_fn(fn, inst["cap"])
    res = {"label": label, "functions": funcs, "variables_total": len(arch.pairs)}
    if over:
        res.update({"over_budget": True, "paths": inst["cap"]})
        return res
    code_pass = summ.formula(lambda o: o[0] == "PASS", arch.pool)
    code_err = summ.formula(lambda o: o[0] == "ERROR", arch.pool)
    oracle = verdict(spec, nodes, Z3Logic(arch.var), usable=arch.usable)
    amb = [p for p in ambiguous_pairs(spec, nodes) if arch.usable(p)]
    assume = [z3.Not(arch.var(*p)) for p in amb]
    st, model = solver().check(*assume, z3.Or(code_err, code_pass != oracle))
    res.update(
        {
            "paths": summ.paths,
            "forks": summ.forks,
            "dont_care_vars": len(arch.pairs) - len(summ.keys_in_tree()),
            "explore_s": summ.explore_s,
            "degenerate": summ.paths >= (1 << len(arch.pairs)) and len(arch.pairs) > 0,
        }
    )
    n, errs = validate_samples(summ, arch, lambda edges: concrete_outcome(nodes, spec, edges))
    res["replays"] = n
    res["errors"] = errs
    if st == "unknown":
        res["errors"].append(f"solver unknown on {label}")
    elif st == "sat":
        edges = arch.model_edges(model)
        payload = {"kind": "rule", "nodes": nodes, "spec": spec.as_json(), "edges": [list(e) for e in edges], "label": label}
        ok, text, detail = replay_detail(payload)
        res["replays"] += 1
        if ok:
            res["errors"].append(f"non-reproducing counterexample (encoding or stub wrong): {label} edges={edges} {text}")
        else:
            payload["observed"] = detail
            payload["signature"] = {"spec": spec.as_json(), "tree": inst["tree"], "naming": inst["naming"]}
            res["violations"] = [payload]
    if summ.paths and len(res.get("samples", [])) == 0 and summ.sample_paths:
        a, o = summ.sample_paths[0]
        res["samples"] = [{"instance": label, "path_edges": arch.edges_of(a), "outcome": list(o), "paths": summ.paths, "vars": len(arch.pairs)}]
    res.update(solver_delta(before))
    return res


def replay_detail(payload: dict):
    if payload.get("pyopt") and not sys.flags.optimize:
        ok, text, detail = _in_optimised_child("replay_detail", payload)
        return ok, text + "  [interpreter run with -O]", detail
    spec = RuleSpec.from_json(payload["spec"])
    nodes = payload["nodes"]
    edges = [tuple(e) for e in payload["edges"]]
    got = concrete_outcome(nodes, spec, edges)
    amb = ambiguous_pairs(spec, nodes)
    exp_pass = bool(verdict(spec, nodes, PyLogic([e for e in edges if e not in amb])))
    exp = "PASS" if exp_pass else "FAIL"
    ok = got[0] == exp
    text = f"rule [{spec.label()}] on modules {nodes} with imports {edges}: real code -> {got[0]}{got[1:] if got[0]=='ERROR' else ''}, documented semantics -> {exp}"
    return ok, text, {"real": list(got), "expected": exp}


def replay(payload: dict):
    ok, text, _ = replay_detail(payload)
    return ok, text


def run(tier: str, only: str | None = None) -> int:
    rep = runner.Report(PROP, tier)
    items = instances(tier)
    if only:
        items = [i for i in items if only in f"{i['tree']}/{i['naming']}: {RuleSpec.from_json(i['spec']).label()}" + (" [python -O]" if i.get("pyopt") else "")]
    rep.bounds = {
        "interpreter_modes": "default; python -O for the T4 single-subject instances (child process)",
        "trees": sorted({i["tree"].split("#")[0] for i in items}),
        "namings": sorted({i["naming"] for i in items}),
        "max_modules": max(len(nodes_of(i)) for i in items) if items else 0,
        "seeded_larger_universes": f"{sum(1 for i in items if 'window' in i)} random forests of 8-12 modules: concrete random background relation, 10-13 symbolic pairs each (VERIF_SEED)",
        "path_cap_per_instance": CAPS[tier],
        "shapes": "12 verb x direction x except shapes + import_anything / be_imported_by_anything (single subject, and batches of 2-3 unrelated named subjects with imports between the subjects as don't-care)",
        "filters": "named / sub modules of on either side, subjects and objects pairwise unrelated",
    }
    rep.assumptions = [
        "import edges from a package to its own direct child carry no variable (the real constructor keeps one edge per node pair)",
        "ambiguous edges (member of Sub(X) <-> X for a 'sub modules of X' subject) are fixed to false (DESIGN C01)",
        "SymDiGraph stub validated against real NetworkxGraph on sampled paths and on every solver model",
    ]
    rep.stubs = ["SymDiGraph (networkx.DiGraph inside NetworkxGraph after real hierarchy construction)"]
    runner.run_pool(work, items, rep, chunksize=4)
    return runner.finish(rep)
