"""C02 - every import statement in a scanned file becomes an import edge, and only those.

(conv)  SYMEX on the real ImportConverter + NetworkxGraph construction.  One importing file whose source text is
        assembled per path and parsed by the real ast.parse: a *main* import statement of one of the documented
        forms placed at one statement-list position (a path of <= 3 (node class, field) steps enumerated from the
        running interpreter's ast grammar), plus two more statements at other positions.  Symbolic: presence of
        each of the three statements; for every candidate name whether it is a scanned module (closed under
        parents by assume).  Leaf: edges of the real graph vs. the per-statement naming rule
        ('import a.b.c' names a.b.c; 'from P import n' names P.n when that is a scanned module and P otherwise;
        relative forms resolved against the importing file's package); imports of the importer's own ancestors
        are don't-care.
(e2e)   every reported model and one sampled path per instance are written as real files and scanned by the
        real get_evaluable_architecture (ast.parse of real files, Parser, filters join in here).
(xh)    CrossHair kernels (vf/kernels/k02.py).
"""

from __future__ import annotations

import ast
import itertools
import os
import random
import re
import shutil
import tempfile

from vf.engine import runner
from vf.engine.mm import check_no_mismatch
from vf.engine.stubs_graph import inner_digraph, split_edges
from vf.engine.symex import ENGINE
from vf.engine.xh import kernel_names, replay_kernel, run_kernels
from vf.universes import is_anc_or_self

PROP = "C02"

# --- statement-list positions from the interpreter's grammar ---------------------------------------------

TEMPLATES = {
    ("If", "body"): "if x:\n{B}",
    ("If", "orelse"): "if x:\n    pass\nelse:\n{B}",
    ("For", "body"): "for i in y:\n{B}",
    ("For", "orelse"): "for i in y:\n    pass\nelse:\n{B}",
    ("AsyncFor", "body"): "async for i in y:\n{B}",
    ("AsyncFor", "orelse"): "async for i in y:\n    pass\nelse:\n{B}",
    ("While", "body"): "while x:\n{B}",
    ("While", "orelse"): "while x:\n    pass\nelse:\n{B}",
    ("With", "body"): "with c:\n{B}",
    ("AsyncWith", "body"): "async with c:\n{B}",
    ("Try", "body"): "try:\n{B}\nexcept E:\n    pass",
    ("Try", "handlers"): "try:\n    pass\nexcept E:\n{B}",
    ("Try", "orelse"): "try:\n    pass\nexcept E:\n    pass\nelse:\n{B}",
    ("Try", "finalbody"): "try:\n    pass\nfinally:\n{B}",
    ("TryStar", "body"): "try:\n{B}\nexcept* E:\n    pass",
    ("TryStar", "handlers"): "try:\n    pass\nexcept* E:\n{B}",
    ("TryStar", "orelse"): "try:\n    pass\nexcept* E:\n    pass\nelse:\n{B}",
    ("TryStar", "finalbody"): "try:\n    pass\nexcept* E:\n    pass\nfinally:\n{B}",
    ("FunctionDef", "body"): "def f():\n{B}",
    ("AsyncFunctionDef", "body"): "async def f():\n{B}",
    ("ClassDef", "body"): "class K:\n{B}",
    ("Match", "cases"): "match v:\n    case 1:\n        pass\n    case _:\n{BB}",
}


def grammar_slots() -> tuple[list[tuple[str, str]], list[str]]:
    """(slots, problems): every (class, field) of the running interpreter's ast grammar whose field is a list of
    statements, or a list of nodes that themselves hold statement lists (excepthandler*, match_case*)."""
    holders = set()
    direct = []
    for name in dir(ast):
        cls = getattr(ast, name)
        if not (isinstance(cls, type) and issubclass(cls, ast.AST)) or not cls.__doc__:
            continue
        m = re.match(r"^(\w+)\((.*)\)$", " ".join(cls.__doc__.split()))
        if not m or m.group(1) != name:
            continue
        for f in m.group(2).split(","):
            parts = f.strip().split()
            if len(parts) == 2 and parts[0] == "stmt*":
                direct.append((name, parts[1]))
    # node kinds that only occur inside another node's list field
    inner = {"ExceptHandler": "excepthandler*", "match_case": "match_case*"}
    slots, problems = [], []
    for cls_name, field in direct:
        if cls_name in ("Module", "Interactive"):
            continue
        if cls_name in inner:
            holders.add(inner[cls_name])
            continue
        slots.append((cls_name, field))
    for name in dir(ast):
        cls = getattr(ast, name)
        if not (isinstance(cls, type) and issubclass(cls, ast.AST)) or not cls.__doc__:
            continue
        m = re.match(r"^(\w+)\((.*)\)$", " ".join(cls.__doc__.split()))
        if not m or m.group(1) != name:
            continue
        for f in m.group(2).split(","):
            parts = f.strip().split()
            if len(parts) == 2 and parts[0] in holders:
                slots.append((name, parts[1]))
    slots = sorted(set(slots))
    for s in slots:
        if s not in TEMPLATES:
            problems.append(f"no source template for statement-list position {s[0]}.{s[1]} of this interpreter's grammar")
    return [s for s in slots if s in TEMPLATES], problems


def nest(path: tuple, stmt: str) -> str:
    """Source text with `stmt` at the statement-list position `path` (outermost first)."""
    text = stmt
    for slot in reversed(path):
        t = TEMPLATES[tuple(slot)]
        if "{BB}" in t:
            text = t.replace("{BB}", "\n".join("        " + ln for ln in text.split("\n")))
        else:
            text = t.replace("{B}", "\n".join("    " + ln for ln in text.split("\n")))
    return text


# --- import forms ----------------------------------------------------------------------------------------

ROOT = "r"
CANDS = ["r.b", "r.b.n", "r.c", "r.a.k", "r.a.k.f"]
FORCED = ["r", "r.a"]


def _pn(M, p, n):
    return f"{p}.{n}" if f"{p}.{n}" in M else p


FORMS = {
    # name: (statement text, importer module, absolute prefix, targets(M) -> set)
    "plain": ("import r.b.n", "r.a.m", "", lambda M: {"r.b.n"}),
    "aliased": ("import r.b.n as x", "r.a.m", "", lambda M: {"r.b.n"}),
    "multi": ("import r.b, r.c as cc", "r.a.m", "", lambda M: {"r.b", "r.c"}),
    "from-name": ("from r.b import n", "r.a.m", "", lambda M: {_pn(M, "r.b", "n")}),
    "from-multi": ("from r.b import n as q, zz", "r.a.m", "", lambda M: {_pn(M, "r.b", "n"), "r.b"}),
    "from-paren": ("from r.a.k import (f, g)", "r.a.m", "", lambda M: {_pn(M, "r.a.k", "f"), "r.a.k"}),
    "star": ("from r.b import *", "r.a.m", "", lambda M: {"r.b"}),
    "from-root": ("from r import c", "r.a.m", "", lambda M: {_pn(M, "r", "c")}),
    "rel1-name": ("from . import k", "r.a.m", "", lambda M: {_pn(M, "r.a", "k")}),
    "rel1-module": ("from .k import f", "r.a.m", "", lambda M: {_pn(M, "r.a.k", "f")}),
    "rel2-name": ("from .. import b, c", "r.a.m", "", lambda M: {_pn(M, "r", "b"), _pn(M, "r", "c")}),
    "rel2-module": ("from ..b import n", "r.a.m", "", lambda M: {_pn(M, "r.b", "n")}),
    "rel2-star": ("from ..b import *", "r.a.m", "", lambda M: {"r.b"}),
    "init-rel1-name": ("from . import k", "r.a.__init__", "", lambda M: {_pn(M, "r.a", "k")}),
    "init-rel1-module": ("from .k import f", "r.a.__init__", "", lambda M: {_pn(M, "r.a.k", "f")}),
    "init-rel2": ("from ..b import n", "r.a.__init__", "", lambda M: {_pn(M, "r.b", "n")}),
    "rel3-deep": ("from ...b import n", "r.a.k.f", "", lambda M: {_pn(M, "r.b", "n")}),
    # written relative to module_path's parent (module_path = r/a, prefix 'r'): only r.a.* is scanned
    "prefix-plain": ("import a.k.f", "r.a.m", "r", lambda M: {"r.a.k.f"}),
    "prefix-from": ("from a.k import f", "r.a.m", "r", lambda M: {_pn(M, "r.a.k", "f")}),
}
EXTRA = [
    ("import r.c", (("ClassDef", "body"),), lambda M: {"r.c"}),
    ("import r.b", (("FunctionDef", "body"), ("If", "body")), lambda M: {"r.b"}),
]


def scanned(sel, form: str):
    """Scanned-module set for one path (closed under parents; None = outside the assumed input space)."""
    stmt, importer, prefix, _ = FORMS[form]
    cands = [c for c in CANDS if (not prefix or c.startswith("r.a."))]
    M = set(FORCED) | {importer} | ancestors_of(importer)
    for c in cands:
        if c not in M and sel(("mod", c)):
            M.add(c)
    for m in M:
        if not ancestors_of(m) <= M:
            return None
    # a module with children is a package: the importing *file* cannot have scanned children
    return M


def source_text(form: str, path: tuple, sel) -> tuple[str, list]:
    stmt = FORMS[form][0]
    blocks, present = [], []
    blocks.append(nest(path, stmt) if sel(("stmt", 0)) else nest(path, "pass"))
    present.append(bool(sel(("stmt", 0))))
    for i, (s, p, _) in enumerate(EXTRA, start=1):
        on = bool(sel(("stmt", i)))
        present.append(on)
        blocks.append(nest(p, s if on else "pass"))
    return "x = 1\n" + "\n".join(blocks) + "\n", present


def expected_edges(form: str, M: set, present: list) -> set:
    stmt, importer, prefix, targets = FORMS[form]
    t = set()
    if present[0]:
        t |= targets(M)
    for on, (_, _, tg) in zip(present[1:], EXTRA):
        if on:
            t |= tg(M)
    return {(importer, x) for x in t if x in M and x != importer}


def ancestors_of(importer: str) -> set:
    parts = importer.split(".")
    return {".".join(parts[:i]) for i in range(1, len(parts))}


def conv_outcome(form: str, path: tuple, sel):
    from pytestarch.eval_structure.networkxgraph import NetworkxGraph
    from pytestarch.eval_structure_generation.file_import.converter import ImportConverter
    from pytestarch.eval_structure_generation.file_import.import_types import NamedModule

    stmt, importer, prefix, _ = FORMS[form]
    M = scanned(sel, form)
    ENGINE.assume(M is not None)
    text, present = source_text(form, path, sel)
    tree = ast.parse(text)
    internal_prefix = "r." + ("a" if prefix else "")
    internal = {m for m in M if m.startswith(internal_prefix)}
    try:
        imports = ImportConverter().convert([NamedModule(tree, importer)], prefix, internal)
        g = NetworkxGraph(sorted(M), imports)
    except Exception as e:  # noqa: BLE001
        return ("MISMATCH", "a graph", f"{type(e).__name__}: {e}")
    got = split_edges(inner_digraph(g))[0]
    return compare(form, M, present, got, set(g.nodes))


def compare(form, M, present, got, nodes):
    importer = FORMS[form][1]
    anc = {(importer, a) for a in ancestors_of(importer)}
    want = expected_edges(form, M, present)
    if (got - anc) != (want - anc):
        return ("MISMATCH", f"imports {sorted(want - anc)}", f"imports {sorted(got - anc)}")
    if not M <= nodes:
        return ("MISMATCH", f"modules {sorted(M)}", f"modules {sorted(nodes)}")
    return ("OK", len(want))


# --- end to end ----------------------------------------------------------------------------------------------


def e2e_outcome(form: str, path: tuple, assign: dict):
    """Writes the project as real files and scans it with the real entry point."""
    from pytestarch import get_evaluable_architecture

    stmt, importer, prefix, _ = FORMS[form]
    sel = lambda k: assign.get(k, 0)  # noqa: E731
    M = scanned(sel, form)
    if M is None:
        return ("IGNORED",)
    text, present = source_text(form, path, sel)
    d = tempfile.mkdtemp(prefix="c02_", dir=os.environ.get("VERIF_SCRATCH"))
    try:
        pkgs = {m for m in M if any(o != m and is_anc_or_self(m, o) for o in M | {importer})} | set(FORCED) | {"r.b", "r.a.k"} & M
        for m in sorted(M | {importer}):
            rel = m.split(".")
            if m in pkgs:
                os.makedirs(os.path.join(d, *rel), exist_ok=True)
            else:
                os.makedirs(os.path.join(d, *rel[:-1]), exist_ok=True)
                with open(os.path.join(d, *rel[:-1], rel[-1] + ".py"), "w") as f:
                    f.write(text if m == importer else "y = 2\n")
        root = os.path.join(d, "r")
        mp = os.path.join(root, "a") if prefix else root
        try:
            ev = get_evaluable_architecture(root, mp)
        except Exception as e:  # noqa: BLE001
            return ("MISMATCH", "an architecture", f"{type(e).__name__}: {e}")
        g = inner_digraph(ev)
        got = split_edges(g)[0]
        return compare(form, M, present, got, set(g.nodes))
    finally:
        shutil.rmtree(d, ignore_errors=True)


# --- several import statements in one file, end to end on the symbolic file system -----------------------------
# (C04's scan / judge machinery with a universe of this check's own: the same module name `w` exists at four places of
# the tree, and one file holds up to nine import statements that spell it absolutely and relatively at levels 1-3.
# Which statements are present and which of the `w` files exist are z3 atoms; every statement must yield its own edge
# whatever else the file imports.)

PAIR_TREE = {"r": "dir", "r/w.py": "file", "r/a": "dir", "r/a/w.py": "file", "r/a/m.py": "file", "r/a/x": "dir", "r/a/x/w.py": "file",
             "r/a/x/u.py": "file", "r/b": "dir", "r/b/w.py": "file"}
PAIR_LINES = {
    "u": {"r/a/x/u.py": ["from .w import f", "from ..w import g", "from ...w import h", "from . import w", "from .. import w", "from ...b import w",
                         "import r.w as ww", "import r.a.w", "from r.a.x import w"]},
    "m": {"r/a/m.py": ["from .w import f", "from ..w import f", "from .x.w import f", "from ..b.w import f", "from . import w, x", "from .. import w", "import r.b.w, r.w"]},
    "u-sub": {"r/a/x/u.py": ["from .w import f", "from ..w import g", "from . import w", "from .. import w", "import a.w", "import a.x.w", "from a import w", "import r.a.w"]},
}


def pair_instances(tier: str) -> list[dict]:
    base = {"part": "pairs", "entry": "path", "lines": "pairs", "cands": PAIR_TREE, "cap": 1 << 15}
    out = [
        dict(base, mp="r", name="u", lineset=PAIR_LINES["u"], relational=False, fixed={"r/a/x/u.py": True, "r/a/m.py": False}),
        dict(base, mp="r", name="m", lineset=PAIR_LINES["m"], relational=False, fixed={"r/a/m.py": True, "r/a/x/u.py": False}),
        dict(base, mp="r/a", name="u-sub", lineset=PAIR_LINES["u-sub"], relational=False, fixed={"r/a/x/u.py": True, "r/a/m.py": False, "r/b/w.py": False}),
    ]
    return out


# --- instances ---------------------------------------------------------------------------------------------


def positions(depth: int, slots) -> list[tuple]:
    out = [()]
    for d in range(1, depth + 1):
        out += [tuple(p) for p in itertools.product(slots, repeat=d)]
    return out


def instances(tier: str) -> list[dict]:
    slots, _ = grammar_slots()
    rnd = random.Random(runner.seed() + 2)
    out = [{"part": "kernel", "name": k, "tier": tier} for k in kernel_names("vf.kernels.k02")]
    forms = list(FORMS)
    p1 = positions(1, slots)
    for p in p1:
        for f in forms:
            out.append({"part": "conv", "form": f, "path": [list(s) for s in p]})
    deep2 = [p for p in positions(2, slots) if len(p) == 2]
    deep3 = [tuple(rnd.choice(slots) for _ in range(3)) for _ in range(2000)]
    if tier == "quick":
        pick = rnd.sample(deep2, 60) + deep3[:60]
        for i, p in enumerate(pick):
            for f in (forms[i % len(forms)], forms[(i * 7 + 3) % len(forms)]):
                out.append({"part": "conv", "form": f, "path": [list(s) for s in p]})
    else:
        for i, p in enumerate(deep2):
            for f in (forms[i % len(forms)], forms[(i * 7 + 3) % len(forms)], forms[(i * 11 + 5) % len(forms)]):
                out.append({"part": "conv", "form": f, "path": [list(s) for s in p]})
        for i, p in enumerate(deep3):
            out.append({"part": "conv", "form": forms[i % len(forms)], "path": [list(s) for s in p]})
    out.append({"part": "grammar"})
    out.extend(pair_instances(tier))
    return out


def label_of(i) -> str:
    if i["part"] == "pairs":
        return f"pairs {i['name']} module_path={i['mp']} statements {sorted(i['lineset'].items())}"
    if i["part"] == "conv":
        return f"conv {i['form']} [{FORMS[i['form']][0]}] at {'/'.join(c + '.' + f for c, f in i['path']) or 'module level'}"
    return " ".join(f"{k}={v}" for k, v in i.items() if k != "tier")


def keys_of(form: str):
    stmt, importer, prefix, _ = FORMS[form]
    ks = [(("stmt", i), 2) for i in range(3)]
    ks += [(("mod", c), 2) for c in CANDS if c != importer and c not in ancestors_of(importer) and (not prefix or c.startswith("r.a."))]
    return ks


def work(inst: dict) -> dict:
    if inst["part"] == "kernel":
        res = run_kernels("vf.kernels.k02", inst["tier"], [inst["name"]])
        res["label"] = label_of(inst)
        return res
    if inst["part"] == "pairs":
        from vf.props import c04

        res = c04.work(inst)
        res["label"] = label_of(inst)
        return res
    if inst["part"] == "grammar":
        slots, problems = grammar_slots()
        return {"label": "grammar", "errors": problems, "paths": len(slots), "forks": len(slots), "samples": [{"instance": "grammar", "statement_list_positions": [f"{c}.{f}" for c, f in slots]}]}
    form, path = inst["form"], tuple(tuple(s) for s in inst["path"])

    def fn():
        return conv_outcome(form, path, lambda k: ENGINE.branch(k))

    def make_payload(assign):
        return {"kind": "conv", "form": form, "path": [list(s) for s in path], "assign": [[list(k), v] for k, v in sorted(assign.items(), key=str)]}

    res = check_no_mismatch(label_of(inst), fn, 1 << 12, make_payload, replay_detail, all_keys=keys_of(form), degenerate=True, sample={"source": source_text(form, path, lambda k: 1)[0]})
    # stub validation: one sampled assignment end to end through real files and the real entry point
    if not res.get("over_budget"):
        rnd = random.Random(hash(label_of(inst)) & 0xFFFF)
        assign = {k: rnd.randint(0, 1) for k, _ in keys_of(form)}
        assign[("stmt", 0)] = 1
        ENGINE.prefix, ENGINE.trace, ENGINE.assign = [], [], dict(assign)
        try:
            try:
                a = conv_outcome(form, path, lambda k: assign.get(k, 0))
            except BaseException:  # noqa: BLE001 - assumed-away input
                a = ("IGNORED",)
        finally:
            ENGINE.assign = {}
        b = e2e_outcome(form, path, assign)
        res["replays"] = res.get("replays", 0) + 1
        if a[0] != "IGNORED" and b[0] != "IGNORED" and a != b:
            res["errors"].append(f"stub divergence on {label_of(inst)} {assign}: converter harness {a}, end-to-end scan {b}")
    return res


def replay_detail(payload: dict):
    if payload["kind"] == "kernel":
        return replay_kernel(payload)
    if payload["kind"] == "scan":
        from vf.props import c04

        return c04.replay_detail(payload)
    form, path = payload["form"], tuple(tuple(s) for s in payload["path"])
    assign = {tuple(k): v for k, v in payload["assign"]}
    o = e2e_outcome(form, path, assign)
    M = scanned(lambda k: assign.get(k, 0), form)
    text, _ = source_text(form, path, lambda k: assign.get(k, 0))
    ok = o[0] in ("OK", "IGNORED")
    return ok, f"file {FORMS[form][1]} with source {text!r}, scanned modules {sorted(M or [])}: " + ("edges as specified" if ok else f"expected {o[1]}, get_evaluable_architecture gives {o[2]}"), {"outcome": [str(x) for x in o]}


def replay(payload: dict):
    ok, text, _ = replay_detail(payload)
    return ok, text


def run(tier: str, only: str | None = None) -> int:
    rep = runner.Report(PROP, tier)
    items = instances(tier)
    if only:
        items = [i for i in items if only in label_of(i)]
    slots, _ = grammar_slots()
    rep.bounds = {
        "positions": f"{len(slots)} statement-list slots of this interpreter's grammar; all depth-1 positions x all forms; " + ("seeded sample of depth-2 / depth-3 positions" if tier == "quick" else "all depth-2 positions x 3 forms, 2000 seeded depth-3 positions"),
        "forms": {k: v[0] + f"   (in {v[1]}" + (f", prefix {v[2]!r})" if v[2] else ")") for k, v in FORMS.items()},
        "candidate_modules": CANDS,
        "statements_per_file": "3 in the converter instances; up to 9 in the end-to-end statement-pair instances (same module name at four places of the tree, absolute and relative spellings at levels 1-3)",
        "kernels": "names <= 7 chars over {a,b,.}, level <= 3",
    }
    rep.assumptions = [
        "scanned-module set closed under parents; the importing file exists; dynamic imports (__import__, importlib) and TYPE_CHECKING conventions are outside",
        "imports of the importing file's own ancestor packages are don't-care (property text)",
        "conv instances read every presence / membership bit when the text and the module set are assembled: exhaustive walk (degenerate); ast.parse runs on the concrete text of each path",
    ]
    rep.stubs = ["none for conv (real ast.parse, converter, graph); real files for e2e"]
    items.sort(key=lambda i: 0 if i["part"] == "kernel" else 1)
    runner.run_pool(work, items, rep, chunksize=1)
    return runner.finish(rep)
