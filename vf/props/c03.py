"""C03 - violation reports name exactly the offending and the missing imports.

Same exploration as C01 with the message kept in the leaf.  For every potential message record r:
    appears_r(e)  (from the decision-tree summary)   ==   must_r(e)  (reference formula)
ONE z3 query per instance:  exists e. FAIL_code(e) and OR_r appears_r(e) != must_r(e).
"""

from __future__ import annotations

import z3

from vf.engine import runner
from vf.engine.rulesym import SymArch, explore_fn, solver, solver_delta, validate_samples
from vf.oracles.messages import expected_records, records_of
from vf.oracles.rules import PyLogic, Z3Logic, ambiguous_pairs
from vf.props import c01
from vf.universes import RuleSpec, build_rule, concrete, evaluate

PROP = "C03"


def outcome_with_records(rule, ev):
    o = evaluate(rule, ev, with_message=True)
    if o[0] == "FAIL":
        return ("FAIL", records_of(o[1]))
    return o


def concrete_outcome(nodes, spec, edges):
    from vf.engine.stubs_graph import real_architecture

    return outcome_with_records(build_rule(spec), real_architecture(nodes, edges))


def work(inst: dict) -> dict:
    spec = RuleSpec.from_json(inst["spec"])
    nodes = c01.nodes_of(inst)
    label = f"{inst['tree']}/{inst['naming']}: {spec.label()}"
    arch = c01.arch_of(inst, nodes)
    before = solver().stats()

    def fn():
        return outcome_with_records(build_rule(spec), arch.ev)

    summ, funcs, over = explore_fn(fn, inst["cap"])
    res = {"label": label, "functions": funcs, "variables_total": len(arch.pairs)}
    if over:
        res.update({"over_budget": True, "paths": inst["cap"]})
        return res
    outs = summ.outcomes()
    observed = set()
    for o in outs:
        if o[0] == "FAIL":
            observed |= o[1]
    must = expected_records(spec, nodes, Z3Logic(arch.var), arch.usable)
    code_fail = summ.formula(lambda o: o[0] == "FAIL", arch.pool)
    diffs = []
    for r in sorted(observed | set(must), key=repr):
        app = summ.formula(lambda o, r=r: o[0] == "FAIL" and r in o[1], arch.pool)
        m = must.get(r, z3.BoolVal(False))
        diffs.append(app != m)
    amb = [p for p in ambiguous_pairs(spec, nodes) if arch.usable(p)]
    assume = [z3.Not(arch.var(*p)) for p in amb]
    st, model = solver().check(*assume, code_fail, z3.Or(*diffs) if diffs else z3.BoolVal(False))
    res.update(
        {
            "paths": summ.paths,
            "forks": summ.forks,
            "dont_care_vars": len(arch.pairs) - len(summ.keys_in_tree()),
            "explore_s": summ.explore_s,
            "degenerate": summ.paths >= (1 << len(arch.pairs)) and len(arch.pairs) > 0,
        }
    )
    n, errs = validate_samples(summ, arch, lambda edges: concrete_outcome(nodes, spec, edges))
    res["replays"] = n
    res["errors"] = errs
    if st == "unknown":
        res["errors"].append(f"solver unknown on {label}")
    elif st == "sat":
        edges = arch.model_edges(model)
        payload = {"kind": "rule-message", "nodes": nodes, "spec": spec.as_json(), "edges": [list(e) for e in edges], "label": label}
        ok, text, detail = replay_detail(payload)
        res["replays"] += 1
        if ok:
            res["errors"].append(f"non-reproducing counterexample: {label} edges={edges} {text}")
        else:
            payload["observed"] = detail
            payload["signature"] = {"spec": spec.as_json(), "tree": inst["tree"], "naming": inst["naming"]}
            res["violations"] = [payload]
    if summ.sample_paths:
        a, o = summ.sample_paths[-1]
        res["samples"] = [{"instance": label, "path_edges": arch.edges_of(a), "outcome": repr(o)[:300], "paths": summ.paths, "records_checked": len(diffs)}]
    res.update(solver_delta(before))
    return res


def replay_detail(payload: dict):
    spec = RuleSpec.from_json(payload["spec"])
    nodes = payload["nodes"]
    edges = [tuple(e) for e in payload["edges"]]
    got = concrete_outcome(nodes, spec, edges)
    amb = ambiguous_pairs(spec, nodes)
    L = PyLogic([e for e in edges if e not in amb])
    must = expected_records(spec, nodes, L, lambda p: True)
    exp = {r for r, c in must.items() if c}
    if got[0] != "FAIL":
        return True, f"rule [{spec.label()}] does not fail on {edges}: outside C03", {"real": repr(got)}
    extra = sorted(got[1] - exp, key=repr)
    missing = sorted(exp - got[1], key=repr)
    ok = not extra and not missing
    text = (
        f"rule [{spec.label()}] on modules {nodes} with imports {edges}: message records not in the violating set: {extra}; "
        f"violating-set records not reported: {missing}"
    )
    return ok, text, {"real": sorted(map(repr, got[1])), "extra": list(map(repr, extra)), "missing": list(map(repr, missing))}


def replay(payload: dict):
    ok, text, _ = replay_detail(payload)
    return ok, text


def run(tier: str, only: str | None = None) -> int:
    rep = runner.Report(PROP, tier)
    items = [i for i in c01.instances(tier) if not i.get("pyopt")]
    if only:
        items = [i for i in items if only in f"{i['tree']}/{i['naming']}: {RuleSpec.from_json(i['spec']).label()}"]
    rep.bounds = {
        "trees": sorted({i["tree"] for i in items}),
        "namings": sorted({i["naming"] for i in items}),
        "path_cap_per_instance": c01.CAPS[tier],
        "records": "every 'X imports Y' / 'X is imported by Y' line over ordered module pairs, every 'does not import' line per subject and object subset, every 'any module that is not' line per subject",
    }
    rep.assumptions = [
        "same universe, stubs and ambiguous-edge exclusion as C01",
        "message lines are parsed by a fixed grammar; an unparsable line is a record that must never appear",
    ]
    rep.stubs = ["SymDiGraph"]
    runner.run_pool(work, items, rep, chunksize=4)
    return runner.finish(rep)
