"""C04 - modules and hierarchy mirror the scanned directory tree, named from root_path.

SYMEX on the real get_evaluable_architecture / get_evaluable_architecture_for_module_objects over a symbolic file
system (vf/engine/stubs_fs.py): which candidate paths exist (packages with / without __init__.py, `a/` next to
`ab.py` and `a_b/`, a non-Python file, a directory without Python files, nesting to depth 4) and which candidate
import lines each file holds are z3 atoms, asked lazily by the real directory walk.  On every path the leaf
compares, for the chosen module_path and entry point,
  * modules  == one per existing .py file / directory at or below module_path (dotted path from root_path's own
               name) plus the ancestors of module_path, hierarchy == dotted-name extension,
  * imports  == the per-line naming rule restricted to scanned modules (fully qualified from the root name,
               relative, or - in a sub-scan - written relative to module_path's parent),
  * sub-scan == full scan restricted to the sub-tree (modules, and imports among them),
  * module-object entry point == path entry point.
Every model and sampled paths are materialised as real directories and scanned by the unpatched entry points.
"""

from __future__ import annotations

import ast
import os
import random
import shutil
import tempfile
import types

from vf.engine import runner
from vf.engine.mm import check_no_mismatch
from vf.engine.stubs_fs import FSModel, abs_path, dotted, graph_view, symfs
from vf.engine.symex import ENGINE

PROP = "C04"
CAPS = {"quick": 1 << 16, "thorough": 1 << 19}

CANDS = {
    "r": "dir",
    "r/a": "dir",
    "r/a/__init__.py": "file",
    "r/a/m.py": "file",
    "r/a/x": "dir",
    "r/a/x/u.py": "file",
    "r/ab.py": "file",
    "r/a_b": "dir",
    "r/a_b/k.py": "file",
    "r/notes.txt": "file",
    "r/empty": "dir",
}
CANDS_DEEP = dict(CANDS)
CANDS_DEEP.update({"r/a/x/y": "dir", "r/a/x/y/v.py": "file", "r/a/x/y/vv.py": "file"})

CANDS_BIG = dict(CANDS)
CANDS_BIG.update({"r/c": "dir", "r/c/__init__.py": "file", "r/c/d.py": "file", "r/a/x/w.py": "file", "r/a/mm.py": "file"})

# a scanned package whose own name starts with (or equals) the root directory's name
# ... and files / directories whose names start with 'py' (the suffix '.py' must only be dropped at the end)
CANDS_PFX = {"r": "dir", "r/rb": "dir", "r/rb/m.py": "file", "r/rb/n.py": "file", "r/r": "dir", "r/r/m.py": "file", "r/r/n.py": "file", "r/k.py": "file",
             "r/rb/pyk.py": "file", "r/pyd": "dir", "r/pyd/q.py": "file"}

# a scanned package two levels below the root whose own name equals, or is a string prefix of, the name of the
# directory above it (r/ab/a, r/a/a): the parent-relative spelling 'import a.n' must resolve against module_path's
# parent however the names repeat along the path
CANDS_NEST = {"r": "dir", "r/ab": "dir", "r/ab/a": "dir", "r/ab/a/m.py": "file", "r/ab/a/n.py": "file", "r/ab/k.py": "file",
              "r/a": "dir", "r/a/a": "dir", "r/a/a/m.py": "file", "r/a/a/n.py": "file", "r/a/a/a": "dir", "r/a/a/a/q.py": "file"}

# a directory reachable twice: r/v is a symbolic link to r/common (both locations are directories of the tree)
CANDS_LINK = {"r": "dir", "r/common": "dir", "r/common/k.py": "file", "r/common/h.py": "file", "r/m.py": "file", "r/v": "dir", "r/v/k.py": "file", "r/v/h.py": "file", "r/w": "dir", "r/w/n.py": "file"}
LINKS = {"r/v": "r/common"}

LINESETS = {
    "qualified": {
        "r/a/m.py": ["import r.ab", "from r.a.x import u"],
        # 'import r.a' from r.a.x.u names an ancestor of the importer: don't-care for the per-line oracle, but the
        # sub-scan / full-scan comparison still requires both scans to agree on it
        "r/a/x/u.py": ["from .. import m", "import r.a.m as mm", "import r.a"],
        "r/a_b/k.py": ["from r.a import m, zz"],
        "r/ab.py": ["import r.a_b.k"],
        "r/a/__init__.py": ["from . import m"],
    },
    "parent-relative": {
        # written relative to module_path's parent directory (meaningful in a sub-scan only)
        "r/a/m.py": ["import a.x.u", "from x import u"],
        "r/a/x/u.py": ["from a import m", "import x.u"],
    },
    "big": {
        "r/a/m.py": ["import r.c.d", "from r.a import mm"],
        "r/a/mm.py": ["from .x import w", "import r.a.m"],
        "r/c/d.py": ["from r.a.x import u, w"],
        "r/a/x/w.py": ["from . import u"],
        "r/c/__init__.py": ["from .d import thing"],
    },
    "prefixpkg": {
        "r/rb/m.py": ["import rb.n", "from rb import n", "import r.rb.n"],
        "r/r/m.py": ["import r.n", "from r import n", "import r.r.n"],
        "r/rb/n.py": ["from rb.m import thing"],
        "r/rb/pyk.py": ["import r.pyd.q", "from . import m"],
        "r/pyd/q.py": ["import r.rb.pyk"],
    },
    "nested-names": {
        "r/ab/a/m.py": ["import a.n", "from a import n", "import r.ab.a.n as x", "from . import n"],
        "r/ab/a/n.py": ["from a.m import thing"],
        "r/a/a/m.py": ["import a.n", "from a import n", "from a.a import q", "import r.a.a.n"],
        "r/a/a/a/q.py": ["import a.m", "from a import n", "from .. import m"],
    },
    "linked": {
        "r/common/k.py": ["import r.m", "from . import h"],
        "r/m.py": ["import r.v.k", "import r.common.h"],
        "r/w/n.py": ["from r.v import h"],
    },
    "deep": {
        "r/a/x/y/v.py": ["from . import vv", "from ... import m", "import r.a.x.u"],
        "r/a/x/u.py": ["from .y import v"],
        "r/a/m.py": ["import r.a.x.y.vv"],
    },
}


# ---------------------------------------------------------------------------------------------------
# oracle


def line_targets(line: str, importer: str, S: set, prefix: str) -> set:
    """Module(s) one import line names, by the documented rule (independent restatement)."""
    node = ast.parse(line).body[0]

    def adj(name):
        return f"{prefix}.{name}" if prefix and f"{prefix}.{name}" in S else name

    out = set()
    if isinstance(node, ast.Import):
        for al in node.names:
            out.add(adj(al.name))
    else:
        for al in node.names:
            if node.level == 0:
                c = adj(f"{node.module}.{al.name}")
                out.add(c if c in S else adj(node.module))
            else:
                parts = importer.split(".")
                pkg = parts[: len(parts) - node.level]
                base = ".".join(pkg + ([node.module] if node.module else []))
                c = f"{base}.{al.name}"
                out.add(c if c in S else base)
    return out


def oracle(model: FSModel, assign_view, mp_rel: str):
    """Expected (modules, imports, hierarchy, don't-care imports) of scanning module path mp_rel."""
    ex, txt = assign_view
    under = [p for p in ex if (p == mp_rel or p.startswith(mp_rel + "/")) and (model.cands[p] == "dir" or p.endswith(".py"))]
    S = {dotted(p) for p in under}
    nodes = set(S)
    mp = dotted(mp_rel)
    parts = mp.split(".")
    nodes |= {".".join(parts[:i]) for i in range(1, len(parts))}
    prefix = "" if "/" not in mp_rel else dotted(os.path.dirname(mp_rel))
    imports, dontcare = set(), set()
    for p in under:
        if model.cands[p] != "file":
            continue
        importer = dotted(p)
        anc = {".".join(importer.split(".")[:i]) for i in range(1, importer.count(".") + 1)}
        for ln in txt.get(p, []):
            for t in line_targets(ln, importer, S, prefix):
                if t == importer or t not in nodes:
                    continue
                # importee outside the scanned sub-tree counts as external (excluded by default)
                if t not in S:
                    dontcare.add((importer, t))
                    continue
                (dontcare if t in anc else imports).add((importer, t))
        dontcare |= {(importer, a) for a in anc}
    hier = {(n.rsplit(".", 1)[0], n) for n in nodes if "." in n}
    return nodes, imports, hier, dontcare


def lazy_view(model: FSModel):
    """The same walk as `concrete`, but asking the engine (forks lazily) - used inside the harness."""
    ex = set()
    for p in sorted(model.cands, key=lambda q: q.count("/")):
        if model.exists(p):
            ex.add(p)
    txt = {p: model.present_lines(p) for p in ex if p in model.lines or model.target(p) in model.lines}
    return ex, txt


# ---------------------------------------------------------------------------------------------------


def scan(model_or_base, mp_rel: str, entry: str, real: bool = False):
    from pytestarch import get_evaluable_architecture, get_evaluable_architecture_for_module_objects

    base = model_or_base if real else "/symfs"
    root, mp = os.path.join(base, "r"), os.path.join(base, mp_rel)
    try:
        if entry == "path":
            ev = get_evaluable_architecture(root, mp)
        else:
            rm = types.SimpleNamespace(__file__=os.path.join(root, "__init__.py"))
            mm = types.SimpleNamespace(__file__=os.path.join(mp, "__init__.py"))
            ev = get_evaluable_architecture_for_module_objects(rm, mm)
    except Exception as e:  # noqa: BLE001
        return ("ERROR", type(e).__name__, str(e)[:120])
    view = graph_view(ev)
    # the public `modules` view: equal to the graph's nodes, and a value of its own - whatever a caller does to the
    # list it was handed, the architecture keeps reporting its modules
    try:
        first = list(ev.modules)
        handed = ev.modules
        if isinstance(handed, list):
            handed.clear()
        second = list(ev.modules)
    except Exception as e:  # noqa: BLE001
        return ("ERROR", "modules property", f"{type(e).__name__}: {e}"[:120])
    if sorted(first) != sorted(view[0]) or first != second:
        return ("ERROR", "modules property", f"graph nodes {sorted(view[0])}, modules {first}, modules after the caller emptied the returned list {second}"[:300])
    return ("SCAN",) + view


def judge(model: FSModel, view, mp_rel: str, got, full=None):
    if got[0] != "SCAN":
        return ("MISMATCH", "an architecture", str(got))
    nodes, imports, hier, dc = oracle(model, view, mp_rel)
    _, g_nodes, g_imp, g_hier = got
    if g_nodes != nodes:
        return ("MISMATCH", f"modules {sorted(nodes)}", f"modules {sorted(g_nodes)}")
    if g_hier != hier:
        return ("MISMATCH", f"hierarchy {sorted(hier)}", f"hierarchy {sorted(g_hier)}")
    if (g_imp - dc) != (imports - dc):
        return ("MISMATCH", f"imports {sorted(imports - dc)}", f"imports {sorted(g_imp - dc)}")
    if full is not None:
        if full[0] != "SCAN":
            return ("MISMATCH", "a full scan", str(full))
        _, f_nodes, f_imp, f_hier = full
        mp = dotted(mp_rel)
        sub = {n for n in f_nodes if n == mp or n.startswith(mp + ".")}
        anc = {".".join(mp.split(".")[:i]) for i in range(1, mp.count(".") + 1)}
        if sub | anc != g_nodes:
            return ("MISMATCH", f"modules of the full scan under {mp}: {sorted(sub | anc)}", f"sub-scan modules {sorted(g_nodes)}")
        f_sub_imp = {(u, v) for u, v in f_imp if u in sub and v in sub}
        g_sub_imp = {(u, v) for u, v in g_imp if u in sub and v in sub}
        if f_sub_imp != g_sub_imp:
            return ("MISMATCH", f"imports of the full scan inside {mp}: {sorted(f_sub_imp)}", f"sub-scan imports {sorted(g_sub_imp)}")
    return ("OK", len(nodes), len(imports))


def make_model(inst) -> FSModel:
    if "cands" in inst:
        # universe handed in by the caller (C02's statement-pair instances reuse this machinery)
        fixed = {}
        p = inst["mp"]
        while "/" in p:
            fixed[p] = True
            p = os.path.dirname(p)
        fixed.update(inst.get("fixed", {}))
        return FSModel(dict(inst["cands"]), {k: list(v) for k, v in inst["lineset"].items()}, fixed=fixed)
    cands = CANDS_NEST if inst["lines"] == "nested-names" else CANDS_DEEP if inst["lines"] == "deep" else CANDS_BIG if inst["lines"] == "big" else CANDS_PFX if inst["lines"] == "prefixpkg" else CANDS_LINK if inst["lines"] == "linked" else CANDS
    mp = inst["mp"]
    fixed = {}
    p = mp
    while "/" in p:
        fixed[p] = True
        p = os.path.dirname(p)
    for k, v in inst.get("fixed", {}).items():
        fixed[k] = v
    return FSModel(cands, LINESETS[inst["lines"]], fixed=fixed, links=LINKS if inst["lines"] == "linked" else None)


def harness(inst, model: FSModel):
    with symfs(model):
        got = scan(None, inst["mp"], inst["entry"])
        full = scan(None, "r", "path") if inst.get("relational") else None
        view = lazy_view(model)
    return judge(model, view, inst["mp"], got, full)


def instances(tier: str) -> list[dict]:
    out = []
    for mp in ("r", "r/a", "r/a/x", "r/a_b"):
        for entry in ("path", "module"):
            out.append({"part": "scan", "mp": mp, "entry": entry, "lines": "qualified", "relational": mp != "r", "cap": CAPS[tier]})
    for mp in ("r/a", "r/a/x"):
        out.append({"part": "scan", "mp": mp, "entry": "path", "lines": "parent-relative", "relational": False, "cap": CAPS[tier]})
    for mp in ("r/rb", "r/r"):
        out.append({"part": "scan", "mp": mp, "entry": "path", "lines": "prefixpkg", "relational": False, "cap": CAPS[tier]})
    out.append({"part": "scan", "mp": "r", "entry": "path", "lines": "prefixpkg", "relational": False, "fixed": {"r/r": False}, "cap": CAPS[tier]})
    out.append({"part": "scan", "mp": "r/ab/a", "entry": "path", "lines": "nested-names", "relational": False, "fixed": {"r/a": False}, "cap": CAPS[tier]})
    out.append({"part": "scan", "mp": "r/a/a", "entry": "path", "lines": "nested-names", "relational": False, "fixed": {"r/ab": False}, "cap": CAPS[tier]})
    if tier == "thorough":
        out.append({"part": "scan", "mp": "r/a/a/a", "entry": "path", "lines": "nested-names", "relational": False, "fixed": {"r/ab": False}, "cap": CAPS[tier]})
        out.append({"part": "scan", "mp": "r/a/a", "entry": "module", "lines": "nested-names", "relational": False, "fixed": {"r/ab": False}, "cap": CAPS[tier]})
    if tier == "thorough":
        big_fixed = {"r/notes.txt": False, "r/empty": False, "r/a_b": False}
        for mp in ("r", "r/a", "r/c", "r/a/x"):
            out.append({"part": "scan", "mp": mp, "entry": "path", "lines": "big", "relational": mp != "r", "fixed": big_fixed, "cap": CAPS[tier]})
    for mp in ("r", "r/v"):
        out.append({"part": "scan", "mp": mp, "entry": "path", "lines": "linked", "relational": mp != "r", "fixed": {"r/common": True}, "cap": CAPS[tier]})
    deep_fixed = {"r/ab.py": False, "r/a_b": False, "r/notes.txt": False, "r/empty": False, "r/a/__init__.py": False}
    for mp in ("r", "r/a/x", "r/a/x/y") if tier == "thorough" else ("r/a/x",):
        out.append({"part": "scan", "mp": mp, "entry": "path", "lines": "deep", "relational": mp != "r", "fixed": deep_fixed, "cap": CAPS[tier]})
    return out


def label_of(i) -> str:
    if i["part"] == "kernel":
        return f"kernel {i['name']}"
    return f"scan module_path={i['mp']} entry={i['entry']} lines={i['lines']} relational={i.get('relational')}"


def work(inst: dict) -> dict:
    model = make_model(inst)

    def fn():
        return harness(inst, model)

    def make_payload(assign):
        return {"kind": "scan", "inst": {k: v for k, v in inst.items() if k != "cap"}, "assign": [[list(k), v] for k, v in sorted(assign.items(), key=str)]}

    res = check_no_mismatch(label_of(inst), fn, inst["cap"], make_payload, replay_detail, all_keys=model.all_keys(), sample={"candidate_paths": sorted(model.cands), "candidate_lines": model.lines})
    # stub validation: sampled assignments materialised as real directories
    if not res.get("over_budget"):
        rnd = random.Random(runner.seed() * 31 + len(label_of(inst)))
        for _ in range(3):
            assign = {k: rnd.randint(0, 1) for k, _ in model.all_keys()}
            ENGINE.prefix, ENGINE.trace, ENGINE.assign = [], [], dict(assign)
            try:
                sym = harness(inst, model)
            finally:
                ENGINE.assign = {}
            ok, text, detail = replay_detail(make_payload(assign))
            res["replays"] = res.get("replays", 0) + 1
            if (sym[0] == "OK") != ok:
                res["errors"].append(f"stub divergence on {label_of(inst)}: symbolic file system -> {sym[:3]}, real directory -> {detail}")
    return res


def replay_detail(payload: dict):
    inst = payload["inst"]
    model = make_model(inst)
    assign = {tuple(k): v for k, v in payload["assign"]}
    d = tempfile.mkdtemp(prefix="c04_", dir=os.environ.get("VERIF_SCRATCH"))
    try:
        model.materialise(assign, d)
        got = scan(d, inst["mp"], inst["entry"], real=True)
        full = scan(d, "r", "path", real=True) if inst.get("relational") else None
        view = model.concrete(assign)
        o = judge(model, view, inst["mp"], got, full)
    finally:
        shutil.rmtree(d, ignore_errors=True)
    ok = o[0] == "OK"
    ex, txt = view
    return ok, f"tree {sorted(ex)} with lines {txt}, module_path={inst['mp']}, entry={inst['entry']}: " + ("as specified" if ok else f"expected {o[1]}, got {o[2]}"), {"outcome": [str(x)[:400] for x in o]}


def replay(payload: dict):
    ok, text, _ = replay_detail(payload)
    return ok, text


def run(tier: str, only: str | None = None) -> int:
    rep = runner.Report(PROP, tier)
    items = instances(tier)
    if only:
        items = [i for i in items if only in label_of(i)]
    rep.bounds = {
        "candidate_paths": sorted(CANDS_DEEP),
        "depth": "<= 5 path components (root r, r/a/x/y/v.py)",
        "module_paths": ["r", "r/a", "r/a/x", "r/a_b", "r/a/x/y", "r/rb", "r/r", "r/ab/a", "r/a/a", "r/a/a/a"],
        "entry_points": ["get_evaluable_architecture", "get_evaluable_architecture_for_module_objects"],
        "line_sets": LINESETS,
        "path_cap_per_instance": CAPS[tier],
    }
    rep.assumptions = [
        "SymFS stub at the pathlib/open boundary (pytestarch.pytestarch.Path, parser-module open); existence bits closed under parent by construction; module_path itself exists",
        "imports of the importing file's own ancestors and imports leaving the scanned sub-tree (external, excluded by default) are don't-care",
        "Parser._get_module_name runs through pathlib, which needs real str objects: no CrossHair kernel (probed: every path aborts); names are the concrete ones of the candidate universe, incl. prefix siblings a / ab / a_b",
        "a directory symlink inside the tree (r/v -> r/common) is modelled by SymFS (both locations are directories of the tree); symlink cycles, file symlinks, links leaving the tree, non-UTF-8 sources, names containing separators or dots, b.py beside b/ are outside",
    ]
    rep.stubs = ["SymFS (SymPath, open)"]
    items.sort(key=lambda i: 0 if i["part"] == "kernel" else 1)
    runner.run_pool(work, items, rep, chunksize=1)
    return runner.finish(rep)
