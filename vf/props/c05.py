"""C05 - layer-rule verdicts follow the documented semantics, one unit per layer.

SYMEX: real LayeredArchitecture / LayerRule / LayerRuleMatcher / LayerRuleViolationDetector on a symbolic
import relation; ONE z3 query per instance against the reference layer semantics.
"""

from __future__ import annotations

import itertools
import random
import re

import z3

from vf.engine import runner
from vf.engine.rulesym import SymArch, explore_fn, solver, solver_delta, validate_samples
from vf.engine.stubs_graph import real_architecture
from vf.oracles.layers import LayerSpec, build_layer_rule, expected_layer_records, layer_members, layer_records_of, verdict
from vf.oracles.rules import PyLogic, Z3Logic
from vf.universes import SHAPES, concrete, evaluate, related

PROP = "C05"
CAPS = {"quick": 1 << 16, "thorough": 1 << 18}


def _layer_defs(mods: tuple, mode: str, idx: int):
    """One layer definition over the module tuple."""
    if mode == "names":
        return ("names", tuple(mods))
    rx = "(" + "|".join(re.escape(m) for m in mods) + ")$"
    return ("regex", (rx,))


def partitions(nodes, n_layers: int, rnd: random.Random, limit: int):
    """Assignments of pairwise-unrelated modules to n_layers layers (each non-empty), some modules unassigned."""
    cands = [n for n in nodes]
    out = []
    k_max = min(len(cands), n_layers + 2)
    for k in range(n_layers, k_max + 1):
        for M in itertools.combinations(cands, k):
            if any(related(a, b) for a, b in itertools.combinations(M, 2)):
                continue
            for assign in itertools.product(range(n_layers), repeat=k):
                if len(set(assign)) != n_layers:
                    continue
                if list(assign) != sorted(assign):  # canonical: layers ordered by first module
                    continue
                out.append(tuple(tuple(m for m, a in zip(M, assign) if a == i) for i in range(n_layers)))
    rnd.shuffle(out)
    return out[:limit]


LAYER_NAMES = ["L0", "L1", "L2", "L3"]


def instances(tier: str) -> list[dict]:
    rnd = random.Random(runner.seed() + 5)
    out = []
    # fewer layers than pairwise-unrelated modules => some layer lists several modules (intra-layer imports)
    plan = [("T5a", "neutral", 3, 6), ("T5b", "adv", 2, 4), ("T4", "adv", 3, 3), ("T4", "neutral", 2, 6), ("T5a", "adv", 2, 6)] if tier == "quick" else [
        ("T4", "neutral", 2, 6), ("T4", "adv", 2, 6), ("T5a", "neutral", 2, 10), ("T5a", "adv", 2, 10), ("T6b", "neutral", 2, 8),
        ("T5a", "neutral", 3, 14), ("T5a", "adv", 3, 8), ("T5b", "neutral", 2, 8), ("T5b", "adv", 2, 8), ("T5d", "neutral", 3, 8), ("T4", "adv", 3, 6), ("T6a", "neutral", 4, 8), ("T6b", "neutral", 3, 8),
    ]
    for tree, naming, nl, limit in plan:
        nodes = concrete(tree, naming)
        for part in partitions(nodes, nl, rnd, limit):
            modes_list = [("names",) * nl, ("regex",) * nl, tuple("regex" if i % 2 else "names" for i in range(nl)), tuple("names" if i % 2 else "regex" for i in range(nl))]
            for modes in modes_list if tier == "thorough" else modes_list[:3]:
                layers = tuple((LAYER_NAMES[i],) + _layer_defs(part[i], modes[i], i) for i in range(nl))
                for si in range(nl):
                    others = [j for j in range(nl) if j != si]
                    objsets = [(j,) for j in others] + ([tuple(others[:2])] if len(others) >= 2 else [])
                    if tier == "quick":
                        objsets = objsets[:1] + objsets[-1:]
                    for objs in objsets:
                        for verb, direction, exc in SHAPES:
                            d = "access" if direction == "import" else "accessed"
                            out.append({"tree": tree, "naming": naming, "spec": LayerSpec(layers, verb, d, exc, LAYER_NAMES[si], tuple(LAYER_NAMES[j] for j in objs)).as_json()})
                    for d in ("access", "accessed"):
                        out.append({"tree": tree, "naming": naming, "spec": LayerSpec(layers, "should_not", d, False, LAYER_NAMES[si], (), True).as_json()})
    if tier == "quick":
        # stratified sample: every (shape, any-layer alias, subject layer listing one / several modules,
        # definition mode of the subject layer) class is represented
        rnd.shuffle(out)
        groups: dict = {}
        for i in out:
            sp = i["spec"]
            subj = [l for l in sp["layers"] if l[0] == sp["subject"]][0]
            multi = (len(subj[2]) > 1) if subj[1] == "names" else ("|" in subj[2][0])
            groups.setdefault((sp["verb"], sp["direction"], sp["except"], sp["anything"], multi, subj[1]), []).append(i)
        out = []
        per = max(1, 420 // max(1, len(groups)))
        for k in sorted(groups, key=str):
            out.extend(groups[k][:per])
        rest = [i for k in sorted(groups, key=str) for i in groups[k][per:]]
        out.extend(rest[: max(0, 420 - len(out))])
    for i in out:
        i["cap"] = CAPS[tier]
    return out


def concrete_outcome(nodes, spec: LayerSpec, edges):
    return evaluate(build_layer_rule(spec), real_architecture(nodes, edges), with_message=False)


def _with_records(o):
    return ("FAIL", layer_records_of(o[1])) if o[0] == "FAIL" else o


def symbolic_outcome(spec, ev):
    try:
        rule = build_layer_rule(spec)
    except Exception as e:  # noqa: BLE001
        return ("ERROR", type(e).__name__)
    return _with_records(evaluate(rule, ev, with_message=True))


def known_class(spec: LayerSpec, nodes) -> str | None:
    return None


def work(inst: dict) -> dict:
    spec = LayerSpec.from_json(inst["spec"])
    nodes = concrete(inst["tree"], inst["naming"])
    label = f"{inst['tree']}/{inst['naming']}: {spec.label()}"
    arch = SymArch(nodes)
    before = solver().stats()

    def fn():
        return symbolic_outcome(spec, arch.ev)

    summ, funcs, over = explore_fn(fn, inst["cap"])
    res = {"label": label, "functions": funcs, "variables_total": len(arch.pairs)}
    if over:
        res.update({"over_budget": True, "paths": inst["cap"]})
        return res
    code_pass = summ.formula(lambda o: o[0] == "PASS", arch.pool)
    code_err = summ.formula(lambda o: o[0] == "ERROR", arch.pool)
    oracle = verdict(spec, nodes, Z3Logic(arch.var), usable=arch.usable)
    # message: every potential record appears exactly when the reference violating set says it must
    L = Z3Logic(arch.var)
    must = expected_layer_records(spec, nodes, L, arch.usable)
    observed = set()
    for o in summ.outcomes():
        if o[0] == "FAIL":
            observed |= o[1]
    code_fail = summ.formula(lambda o: o[0] == "FAIL", arch.pool)
    diffs = [summ.formula(lambda o, r=r: o[0] == "FAIL" and r in o[1], arch.pool) != z3.And(code_fail, must.get(r, z3.BoolVal(False))) for r in sorted(observed | set(must), key=repr)]
    st, model = solver().check(z3.Or(code_err, code_pass != oracle, *diffs))
    res.update({"paths": summ.paths, "forks": summ.forks, "dont_care_vars": len(arch.pairs) - len(summ.keys_in_tree()), "explore_s": summ.explore_s})
    n, errs = validate_samples(summ, arch, lambda edges: _conc(nodes, spec, edges))
    res["replays"] = n
    res["errors"] = errs
    if st == "unknown":
        res["errors"].append(f"solver unknown on {label}")
    elif st == "sat":
        edges = arch.model_edges(model)
        payload = {"kind": "layer-rule", "nodes": nodes, "spec": spec.as_json(), "edges": [list(e) for e in edges], "label": label}
        ok, text, detail = replay_detail(payload)
        res["replays"] += 1
        if ok:
            res["errors"].append(f"non-reproducing counterexample: {label} edges={edges} {text}")
        else:
            payload["observed"] = detail
            payload["signature"] = {"spec": spec.as_json(), "tree": inst["tree"], "naming": inst["naming"]}
            res["violations"] = [payload]
    if summ.sample_paths:
        a, o = summ.sample_paths[0]
        res["samples"] = [{"instance": label, "path_edges": arch.edges_of(a), "outcome": list(o), "paths": summ.paths}]
    res.update(solver_delta(before))
    return res


def _conc(nodes, spec, edges):
    try:
        rule = build_layer_rule(spec)
    except Exception as e:  # noqa: BLE001
        return ("ERROR", type(e).__name__)
    return _with_records(evaluate(rule, real_architecture(nodes, edges), with_message=True))


def replay_detail(payload: dict):
    spec = LayerSpec.from_json(payload["spec"])
    nodes = payload["nodes"]
    edges = [tuple(e) for e in payload["edges"]]
    got = _conc(nodes, spec, edges)
    exp = "PASS" if verdict(spec, nodes, PyLogic(edges)) else "FAIL"
    ok = got[0] == exp
    text = f"layer rule {spec.label()} on modules {nodes} (layer members {layer_members(spec, nodes)}) with imports {edges}: real code -> {got[0]}, documented semantics -> {exp}"
    if ok and got[0] == "FAIL":
        must = expected_layer_records(spec, nodes, PyLogic(edges))
        want = {r for r, c in must.items() if c}
        if got[1] != want:
            ok = False
            text += f"; message records not in the violating set: {sorted(got[1] - want, key=repr)}; violating-set records not reported: {sorted(want - got[1], key=repr)}"
    return ok, text, {"real": [str(x) for x in got], "expected": exp}


def replay(payload: dict):
    ok, text, _ = replay_detail(payload)
    return ok, text


def run(tier: str, only: str | None = None) -> int:
    rep = runner.Report(PROP, tier)
    items = instances(tier)
    if only:
        items = [i for i in items if only in f"{i['tree']}/{i['naming']}: {LayerSpec.from_json(i['spec']).label()}"]
    rep.bounds = {
        "trees": sorted({i["tree"] for i in items}),
        "layers": "2-4 layers over pairwise-unrelated modules, some modules in no layer; all-named, all-regex and mixed definitions; layers not mentioned by the rule",
        "rules": "12 access shapes + 2 any-layer aliases, 1-2 object layers",
        "path_cap_per_instance": CAPS[tier],
    }
    rep.assumptions = ["SymDiGraph stub", "regex layers are anchored alternations of the listed module names"]
    rep.stubs = ["SymDiGraph"]
    runner.run_pool(work, items, rep, chunksize=4)
    return runner.finish(rep)
