"""C05 - layer-rule verdicts follow the documented semantics, one unit per layer.

SYMEX: real LayeredArchitecture / LayerRule / LayerRuleMatcher / LayerRuleViolationDetector on a symbolic
import relation; ONE z3 query per instance against the reference layer semantics.
"""

from __future__ import annotations

import itertools
import random
import re

import z3

from vf.engine import runner
from vf.engine.rulesym import SymArch, explore_fn, solver, solver_delta, validate_samples
from vf.engine.stubs_graph import real_architecture
from vf.oracles.layers import LayerSpec, build_layer_rule, expected_layer_records, layer_members, layer_records_of, verdict
from vf.oracles.rules import PyLogic, Z3Logic
from vf.universes import SHAPES, concrete, evaluate, related

PROP = "C05"
CAPS = {"quick": 1 << 16, "thorough": 1 << 18}


def _layer_defs(mods: tuple, mode: str, idx: int):
    """One layer definition over the module tuple."""
    if mode == "names":
        return ("names", tuple(mods))
    if idx % 2 and len(mods) > 1:
        # top-level alternation, every alternative anchored on its own (re.match anchors each at the start)
        rx = "|".join(re.escape(m) + "$" for m in mods)
    else:
        rx = "(" + "|".join(re.escape(m) for m in mods) + ")$"
    return ("regex", (rx,))


def partitions(nodes, n_layers: int, rnd: random.Random, limit: int):
    """Assignments of pairwise-unrelated modules to n_layers layers (each non-empty), some modules unassigned."""
    cands = [n for n in nodes]
    out = []
    k_max = min(len(cands), n_layers + 2)
    for k in range(n_layers, k_max + 1):
        for M in itertools.combinations(cands, k):
            if any(related(a, b) for a, b in itertools.combinations(M, 2)):
                continue
            for assign in itertools.product(range(n_layers), repeat=k):
                if len(set(assign)) != n_layers:
                    continue
                if list(assign) != sorted(assign):  # canonical: layers ordered by first module
                    continue
                out.append(tuple(tuple(m for m, a in zip(M, assign) if a == i) for i in range(n_layers)))
    rnd.shuffle(out)
    return out[:limit]


LAYER_NAMES = ["L0", "L1", "L2", "L3"]
# layer names that contain one another as text (used with the adversarial module naming): a layer is identified by
# its whole name
LAYER_NAMES_ADV = ["api", "api_internal", "ap", "gapi"]


def instances(tier: str) -> list[dict]:
    rnd = random.Random(runner.seed() + 5)
    out = []
    # fewer layers than pairwise-unrelated modules => some layer lists several modules (intra-layer imports)
    plan = [("T5a", "neutral", 3, 6), ("T5b", "adv", 2, 4), ("T4", "adv", 3, 3), ("T4", "neutral", 2, 6), ("T5a", "adv", 2, 6)] if tier == "quick" else [
        ("T4", "neutral", 2, 6), ("T4", "adv", 2, 6), ("T5a", "neutral", 2, 10), ("T5a", "adv", 2, 10), ("T6b", "neutral", 2, 8),
        ("T5a", "neutral", 3, 14), ("T5a", "adv", 3, 8), ("T5b", "neutral", 2, 8), ("T5b", "adv", 2, 8), ("T5d", "neutral", 3, 8), ("T4", "adv", 3, 6), ("T6a", "neutral", 4, 8), ("T6b", "neutral", 3, 8),
    ]
    for tree, naming, nl, limit in plan:
        nodes = concrete(tree, naming)
        LN = LAYER_NAMES_ADV if naming == "adv" else LAYER_NAMES
        for part in partitions(nodes, nl, rnd, limit):
            modes_list = [("names",) * nl, ("regex",) * nl, tuple("regex" if i % 2 else "names" for i in range(nl)), tuple("names" if i % 2 else "regex" for i in range(nl))]
            for modes in modes_list if tier == "thorough" else modes_list[:3]:
                layers = tuple((LN[i],) + _layer_defs(part[i], modes[i], i) for i in range(nl))
                for si in range(nl):
                    others = [j for j in range(nl) if j != si]
                    objsets = [(j,) for j in others] + ([tuple(others[:2])] if len(others) >= 2 else [])
                    if tier == "quick":
                        objsets = objsets[:1] + objsets[-1:]
                    for objs in objsets:
                        for verb, direction, exc in SHAPES:
                            d = "access" if direction == "import" else "accessed"
                            out.append({"tree": tree, "naming": naming, "spec": LayerSpec(layers, verb, d, exc, LN[si], tuple(LN[j] for j in objs)).as_json()})
                    for d in ("access", "accessed"):
                        out.append({"tree": tree, "naming": naming, "spec": LayerSpec(layers, "should_not", d, False, LN[si], (), True).as_json()})
    if tier == "quick":
        # stratified sample: every (shape, any-layer alias, subject layer listing one / several modules,
        # definition mode of the subject layer) class is represented
        rnd.shuffle(out)
        groups: dict = {}
        for i in out:
            sp = i["spec"]
            subj = [l for l in sp["layers"] if l[0] == sp["subject"]][0]
            multi = (len(subj[2]) > 1) if subj[1] == "names" else ("|" in subj[2][0])
            groups.setdefault((sp["verb"], sp["direction"], sp["except"], sp["anything"], multi, subj[1]), []).append(i)
        out = []
        per = max(1, 420 // max(1, len(groups)))
        for k in sorted(groups, key=str):
            out.extend(groups[k][:per])
        rest = [i for k in sorted(groups, key=str) for i in groups[k][per:]]
        out.extend(rest[: max(0, 420 - len(out))])
    # the same LayerRule OBJECT applied first to another code base (the same names, one module of a multi-module regex
    # layer missing) and then judged on the symbolic one: the verdict must follow the second code base's own modules
    used = []
    for i in out:
        sp = i["spec"]
        multi = [l for l in sp["layers"] if l[1] == "regex" and "|" in l[2][0]]
        if multi:
            used.append(dict(i, used=True))
    rnd.shuffle(used)
    out.extend(used[: (40 if tier == "quick" else 400)])
    # six-module trees: the full relation (25-26 variables) is beyond the path budget in the be-accessed-by direction;
    # a seeded concrete relation with a window of 13 symbolic pairs around the layers' modules instead
    from vf.universes import random_window

    wrnd = random.Random(runner.seed() * 17 + 5)
    for i in out:
        if i["tree"].startswith("T6"):
            nodes = concrete(i["tree"], i["naming"])
            members = [m for l in i["spec"]["layers"] for m in (l[2] if l[1] == "names" else [n for n in nodes if re.match(l[2][0], n)])]
            win, bg = random_window(wrnd, nodes, 13, density=wrnd.choice((0.0, 0.05, 0.15)), focus=members)
            i["window"] = [list(p) for p in win]
            i["background"] = [list(p) for p in bg]
    for i in out:
        i["cap"] = CAPS[tier]
    return out


def first_code_base(spec: LayerSpec, nodes):
    """The universe without the last module (and its descendants) of the first multi-module regex layer."""
    from vf.universes import is_anc_or_self

    for name, kind, payload in spec.layers:
        if kind == "regex" and "|" in payload[0]:
            members = [n for n in nodes if re.match(payload[0], n)]
            drop = sorted(members)[-1]
            return [n for n in nodes if not is_anc_or_self(drop, n)]
    return list(nodes)


def used_rule(spec: LayerSpec, nodes):
    rule = build_layer_rule(spec)
    first = first_code_base(spec, nodes)
    kept = [(a, b) for a in first for b in first if a != b and not related(a, b)][:2]
    try:
        rule.assert_applies(real_architecture(first, kept))
    except (AssertionError, Exception):  # noqa: BLE001 - only the side effects of a first application matter
        pass
    return rule


def concrete_outcome(nodes, spec: LayerSpec, edges):
    return evaluate(build_layer_rule(spec), real_architecture(nodes, edges), with_message=False)


def _with_records(o):
    return ("FAIL", layer_records_of(o[1])) if o[0] == "FAIL" else o


def symbolic_outcome(spec, ev, rule=None):
    try:
        rule = rule or build_layer_rule(spec)
    except Exception as e:  # noqa: BLE001
        return ("ERROR", type(e).__name__)
    return _with_records(evaluate(rule, ev, with_message=True))


def known_class(spec: LayerSpec, nodes) -> str | None:
    return None


def work(inst: dict) -> dict:
    spec = LayerSpec.from_json(inst["spec"])
    nodes = concrete(inst["tree"], inst["naming"])
    label = f"{inst['tree']}/{inst['naming']}: {spec.label()}" + (" [rule object used on another code base first]" if inst.get("used") else "")
    arch = SymArch(nodes, window=[tuple(p) for p in inst["window"]], background=[tuple(p) for p in inst["background"]]) if "window" in inst else SymArch(nodes)
    before = solver().stats()
    shared = used_rule(spec, nodes) if inst.get("used") else None

    def fn():
        return symbolic_outcome(spec, arch.ev, shared)

    summ, funcs, over = explore_fn(fn, inst["cap"])
    res = {"label": label, "functions": funcs, "variables_total": len(arch.pairs)}
    if over:
        res.update({"over_budget": True, "paths": inst["cap"]})
        return res
    code_pass = summ.formula(lambda o: o[0] == "PASS", arch.pool)
    code_err = summ.formula(lambda o: o[0] == "ERROR", arch.pool)
    oracle = verdict(spec, nodes, Z3Logic(arch.var), usable=arch.usable)
    # message: every potential record appears exactly when the reference violating set says it must
    L = Z3Logic(arch.var)
    must = expected_layer_records(spec, nodes, L, arch.usable)
    observed = set()
    for o in summ.outcomes():
        if o[0] == "FAIL":
            observed |= o[1]
    code_fail = summ.formula(lambda o: o[0] == "FAIL", arch.pool)
    diffs = [summ.formula(lambda o, r=r: o[0] == "FAIL" and r in o[1], arch.pool) != z3.And(code_fail, must.get(r, z3.BoolVal(False))) for r in sorted(observed | set(must), key=repr)]
    st, model = solver().check(z3.Or(code_err, code_pass != oracle, *diffs))
    res.update({"paths": summ.paths, "forks": summ.forks, "dont_care_vars": len(arch.pairs) - len(summ.keys_in_tree()), "explore_s": summ.explore_s})
    n, errs = validate_samples(summ, arch, lambda edges: _conc(nodes, spec, edges, inst.get("used", False)))
    res["replays"] = n
    res["errors"] = errs
    if st == "unknown":
        res["errors"].append(f"solver unknown on {label}")
    elif st == "sat":
        edges = arch.model_edges(model)
        payload = {"kind": "layer-rule", "nodes": nodes, "spec": spec.as_json(), "edges": [list(e) for e in edges], "label": label, "used": bool(inst.get("used"))}
        ok, text, detail = replay_detail(payload)
        res["replays"] += 1
        if ok:
            res["errors"].append(f"non-reproducing counterexample: {label} edges={edges} {text}")
        else:
            payload["observed"] = detail
            payload["signature"] = {"spec": spec.as_json(), "tree": inst["tree"], "naming": inst["naming"]}
            res["violations"] = [payload]
    if summ.sample_paths:
        a, o = summ.sample_paths[0]
        res["samples"] = [{"instance": label, "path_edges": arch.edges_of(a), "outcome": list(o), "paths": summ.paths}]
    res.update(solver_delta(before))
    return res


def _conc(nodes, spec, edges, used=False):
    try:
        rule = used_rule(spec, nodes) if used else build_layer_rule(spec)
    except Exception as e:  # noqa: BLE001
        return ("ERROR", type(e).__name__)
    return _with_records(evaluate(rule, real_architecture(nodes, edges), with_message=True))


def replay_detail(payload: dict):
    spec = LayerSpec.from_json(payload["spec"])
    nodes = payload["nodes"]
    edges = [tuple(e) for e in payload["edges"]]
    got = _conc(nodes, spec, edges, payload.get("used", False))
    exp = "PASS" if verdict(spec, nodes, PyLogic(edges)) else "FAIL"
    ok = got[0] == exp
    text = (f"the LayerRule object was first applied to the code base {first_code_base(spec, nodes)}; then: " if payload.get("used") else "") + f"layer rule {spec.label()} on modules {nodes} (layer members {layer_members(spec, nodes)}) with imports {edges}: real code -> {got[0]}, documented semantics -> {exp}"
    if ok and got[0] == "FAIL":
        must = expected_layer_records(spec, nodes, PyLogic(edges))
        want = {r for r, c in must.items() if c}
        if got[1] != want:
            ok = False
            text += f"; message records not in the violating set: {sorted(got[1] - want, key=repr)}; violating-set records not reported: {sorted(want - got[1], key=repr)}"
    return ok, text, {"real": [str(x) for x in got], "expected": exp}


def replay(payload: dict):
    ok, text, _ = replay_detail(payload)
    return ok, text


def run(tier: str, only: str | None = None) -> int:
    rep = runner.Report(PROP, tier)
    items = instances(tier)
    if only:
        items = [i for i in items if only in f"{i['tree']}/{i['naming']}: {LayerSpec.from_json(i['spec']).label()}" + (" [used]" if i.get("used") else "")]
    rep.bounds = {
        "trees": sorted({i["tree"] for i in items}),
        "layers": "2-4 layers over pairwise-unrelated modules, some modules in no layer; all-named, all-regex and mixed definitions; layers not mentioned by the rule",
        "rules": "12 access shapes + 2 any-layer aliases, 1-2 object layers",
        "used_rule_objects": f"{sum(1 for i in items if i.get('used'))} instances whose LayerRule object was applied to another code base first (one module of a multi-module regex layer missing there)",
        "path_cap_per_instance": CAPS[tier],
    }
    rep.assumptions = ["SymDiGraph stub", "regex layers are anchored alternations of the listed module names"]
    rep.stubs = ["SymDiGraph"]
    runner.run_pool(work, items, rep, chunksize=4)
    return runner.finish(rep)
