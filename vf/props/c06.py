"""C06 - PlantUML diagrams parse to exactly their components, aliases and arrows.

(re)    Z3 regex theory on the parser's own patterns (captured from the running code by spying on re.compile,
        parsed with re._parser, translated to z3 regular expressions; vf/engine/smt_regex.py): per-line language
        inclusion and unambiguous extraction for the documented arrow and declaration forms, tag slicing.
(unify) SYMEX on the real PumlParser().parse: 2-3 components with concrete declaration forms; symbolic: for
        every ordered pair whether an arrow is drawn and whether each end is written by alias or by name; the
        text is assembled and parsed by the real parser (file served through an `open` stub; replays use real
        files); leaf compares components and relation with what was drawn.
"""

from __future__ import annotations

import io
import itertools
import os
import random
import shutil
import tempfile

from vf.engine import runner
from vf.engine.mm import check_no_mismatch
from vf.engine.symex import ENGINE

PROP = "C06"

ARROWS = ["{l} --> {r}", "{l} -> {r}", "{r} <-- {l}", "{r} <- {l}", "{l} -uses-> {r}", "{r} <-is_used_by- {l}"]
DECL_FORMS = ["[{n}]", "component {n}", "component [{n}]", "[{n}] as {a}", "component {n} as {a}", "component [{n}] as {a}", None]

NAME_SETS = {
    "ident": ["A", "Bb", "c_1"],
    "dotted": ["src.A.x", "src.B", "src.A.xy"],
    "mixed": ["top", "pkg.sub.mod", "pkg.sub"],
}
ALIASES = ["a1", "b_2", "k3"]


class Diagram:
    """A concrete family of diagrams: component names, one declaration form per component, line-order style,
    noise; the drawn relation and the per-end reference form are supplied by `sel`."""

    def __init__(self, names, decl, order: int, noise: bool, style: int, eol: str = "\n", aliases=None):
        self.aliases = list(aliases) if aliases else list(ALIASES)
        self.eol = eol  # line terminator of the file on disk ("\n" or "\r\n"); the parser reads in text mode
        self.names = list(names)
        self.decl = list(decl)  # index into DECL_FORMS per component
        self.order = order
        self.noise = noise
        self.style = style

    def has_alias(self, i) -> bool:
        f = DECL_FORMS[self.decl[i]]
        return f is not None and "{a}" in f

    def keys(self):
        ks = []
        n = len(self.names)
        for i in range(n):
            for j in range(n):
                if i != j:
                    ks.append((("arrow", i, j), 2))
                    if self.has_alias(i):
                        ks.append((("by_alias_l", i, j), 2))
                    if self.has_alias(j):
                        ks.append((("by_alias_r", i, j), 2))
        return ks

    def ref(self, i, by_alias: bool, bare: bool) -> str:
        if by_alias:
            return self.aliases[i]
        # an undeclared or bracket-declared component is referenced in brackets; bare only when allowed
        return self.names[i] if bare else f"[{self.names[i]}]"

    def build(self, sel):
        n = len(self.names)
        decl_lines = []
        for i, nm in enumerate(self.names):
            f = DECL_FORMS[self.decl[i]]
            if f is not None:
                decl_lines.append(f.format(n=nm, a=self.aliases[i]))
        arrow_lines = []
        drawn = set()
        idx = self.style
        for i in range(n):
            for j in range(n):
                if i == j or not sel(("arrow", i, j)):
                    continue
                la = self.has_alias(i) and bool(sel(("by_alias_l", i, j)))
                ra = self.has_alias(j) and bool(sel(("by_alias_r", i, j)))
                bare_l = idx % 3 == 1
                bare_r = idx % 5 == 2
                line = ARROWS[idx % len(ARROWS)].format(l=self.ref(i, la, bare_l), r=self.ref(j, ra, bare_r))
                arrow_lines.append(line)
                drawn.add((self.names[i], self.names[j]))
                idx += 1
        if self.order == 0:
            body = decl_lines + arrow_lines
        elif self.order == 1:
            body = arrow_lines + decl_lines
        elif self.order == 2:
            body = list(reversed(decl_lines)) + list(reversed(arrow_lines))
        else:
            body = [x for pair in itertools.zip_longest(arrow_lines, decl_lines) for x in pair if x is not None]
        lines = (["Some title text [X] --> [Y]", ""] if self.noise else []) + ["@startuml"] + body + ["@enduml"] + (["trailing [Q] <- [R] words"] if self.noise else [])
        declared = {self.names[i] for i in range(n) if DECL_FORMS[self.decl[i]] is not None}
        comps = declared | {a for a, _ in drawn} | {b for _, b in drawn}
        return "\n".join(lines) + "\n", comps, drawn

    def as_json(self):
        return {"names": self.names, "decl": self.decl, "order": self.order, "noise": self.noise, "style": self.style, "eol": self.eol, "aliases": self.aliases}

    @staticmethod
    def from_json(d):
        return Diagram(d["names"], d["decl"], d["order"], d["noise"], d["style"], d.get("eol", "\n"), d.get("aliases"))

    def label(self) -> str:
        return f"names={self.names} decl={[DECL_FORMS[d] for d in self.decl]} order={self.order} noise={self.noise} style={self.style} eol={self.eol!r}" + (f" aliases={self.aliases}" if self.aliases != ALIASES else "")


_SCRATCH = None


def _scratch() -> str:
    global _SCRATCH
    if _SCRATCH is None or not os.path.isdir(_SCRATCH):
        import atexit

        _SCRATCH = tempfile.mkdtemp(prefix="c06_", dir=os.environ.get("VERIF_SCRATCH"))
        atexit.register(shutil.rmtree, _SCRATCH, True)
    return _SCRATCH


def parse_text(text: str, real_file: bool = True, decoy: bool = True, eol: str = "\n"):
    """Real PumlParser().parse on a real scratch file holding `text` with the given line terminator (unpatched
    code, no stub).  One fixed path per process, rewritten for every diagram: a diagram edited in place must be
    re-read; with decoy=True another diagram is parsed from the same path first."""
    from pathlib import Path

    import pytestarch.diagram_extension.diagram_parser as dp

    p = os.path.join(_scratch(), "d.puml")
    if decoy:
        with open(p, "w", encoding="utf-8") as f:
            f.write("@startuml\n[decoy_x] --> [decoy_y]\n@enduml\n")
        _run_parser(dp, Path(p))
    with open(p, "w", encoding="utf-8", newline="") as f:
        f.write(text.replace("\n", eol))
    return _run_parser(dp, Path(p))


def _run_parser(dp, path):
    try:
        r = dp.PumlParser().parse(path)
    except Exception as e:  # noqa: BLE001
        return ("ERROR", type(e).__name__, str(e)[:100])
    rel = {(k, v) for k, vs in r.dependencies.items() for v in vs}
    return ("PARSED", frozenset(r.all_modules), frozenset(rel))


def unify_outcome(dg: Diagram, sel, real_file=False):
    text, comps, drawn = dg.build(sel)
    got = parse_text(text, decoy=real_file, eol=dg.eol)
    if got[0] != "PARSED":
        return ("MISMATCH", f"components {sorted(comps)} relation {sorted(drawn)}", str(got), text)
    if set(got[1]) != comps:
        return ("MISMATCH", f"components {sorted(comps)}", f"components {sorted(got[1])}", text)
    if set(got[2]) != drawn:
        return ("MISMATCH", f"relation {sorted(drawn)}", f"relation {sorted(got[2])}", text)
    return ("OK", len(drawn))


def parser_keywords() -> list[str]:
    """Words the parser's own source treats specially: every alphabetic token (>= 2 letters) of the short string
    constants of pytestarch.diagram_extension.diagram_parser (markers such as 'component', 'as', ... whatever the
    current source defines).  Component names and aliases that merely START with such a word are ordinary names."""
    import ast
    import inspect
    import re

    import pytestarch.diagram_extension.diagram_parser as dp

    tree = ast.parse(inspect.getsource(dp))
    doc = set()
    for node in ast.walk(tree):
        if isinstance(node, (ast.Module, ast.ClassDef, ast.FunctionDef, ast.AsyncFunctionDef)) and node.body and isinstance(node.body[0], ast.Expr) and isinstance(node.body[0].value, ast.Constant):
            doc.add(id(node.body[0].value))
    words: list[str] = []
    for node in ast.walk(tree):
        if isinstance(node, ast.Constant) and isinstance(node.value, str) and id(node) not in doc and len(node.value) <= 24:
            for w in re.findall(r"[A-Za-z]{2,}", node.value):
                w = w.lower()
                if w not in words:
                    words.append(w)
    return words


def keyword_diagrams(tier: str) -> list[Diagram]:
    out = []
    kws = parser_keywords()
    kws = kws[: 10 if tier == "quick" else 24]
    for n, kw in enumerate(kws):
        for names in ([f"{kw}book", "util"], [f"{kw}s.store", "api"]):
            for style in range(6):
                for decl in ((6, 6), (1, 1), (0, 3), (4, 0)):
                    out.append(Diagram(names, decl, (n + style) % 4, False, style, "\r\n" if (n + style) % 5 == 0 else "\n"))
    return out


def diagrams(tier: str) -> list[Diagram]:
    rnd = random.Random(runner.seed() + 6)
    out = keyword_diagrams(tier)
    # two components: every pair of declaration forms, three name sets
    for ns in NAME_SETS.values():
        for d in itertools.product(range(len(DECL_FORMS)), repeat=2):
            out.append(Diagram(ns[:2], d, rnd.randrange(4), rnd.random() < 0.5, rnd.randrange(6), "\r\n" if len(out) % 3 == 0 else "\n"))
    # aliases that are textually the FIRST SEGMENT of a dotted component name (of their own component, of another
    # one): an alias stands for its component only as a whole token, never as part of a dotted name
    pa_names, pa_aliases = ["pkg.core", "pkg.cli", "web.ui"], ["pkg", "web", "k3"]
    pa = [d for d in itertools.product(range(len(DECL_FORMS)), repeat=3) if any(DECL_FORMS[x] is not None and "{a}" in DECL_FORMS[x] for x in d[:2])]
    rnd.shuffle(pa)
    for n, d in enumerate(pa[: (10 if tier == "quick" else 60)]):
        out.append(Diagram(pa_names, d, n % 4, n % 3 == 0, n % 6, "\n", aliases=pa_aliases))
    # three components: seeded sample of declaration-form triples
    triples = list(itertools.product(range(len(DECL_FORMS)), repeat=3))
    rnd.shuffle(triples)
    k = 18 if tier == "quick" else len(triples)
    for n, d in enumerate(triples[:k]):
        ns = list(NAME_SETS.values())[n % 3]
        out.append(Diagram(ns, d, n % 4, n % 2 == 0, n % 6, "\r\n" if n % 3 == 1 else "\n"))
    return out


def instances(tier: str) -> list[dict]:
    out = [{"part": "unify", "diagram": d.as_json()} for d in diagrams(tier)]
    from vf.props import c06re

    out += c06re.instances(tier)
    out.append({"part": "tags"})
    out.append({"part": "tagseq", "L": 5 if tier == "quick" else 6})
    return out


def label_of(i) -> str:
    if i["part"] == "unify":
        return "unify " + Diagram.from_json(i["diagram"]).label()
    return " ".join(f"{k}={v}" for k, v in i.items())


TAG_CASES = [
    ("[a] --> [b]\n", False),
    ("@startuml\n[a] --> [b]\n", False),
    ("[a] --> [b]\n@enduml\n", False),
    ("@enduml\n[a] --> [b]\n@startuml\n", False),
    ("", False),
    ("@startuml@enduml", False),
    ("@startuml\n[a] --> [b]\n@enduml\n", True),
    ("x @startuml\n[a] --> [b]\n@enduml y", True),
]


# --- tag slicing over symbolic token sequences ----------------------------------------------------------------
# A file is a sequence of <= L tokens, each chosen symbolically: the start tag, the end tag (each at most once - with
# several diagrams in one file the documentation does not say which one counts), two arrow lines, a noise line.
# Reference: a start tag FOLLOWED by an end tag delimits the diagram - exactly the arrow lines between them are
# parsed; in every other case (a tag missing, or the end tag only before the start tag) the file has no diagram
# and must be rejected with PumlParsingError.
TAG_TOKENS = ["@startuml\n", "@enduml\n", "[a] --> [b]\n", "c -> a\n", "some words, not a diagram line\n"]
TAG_ARROWS = {2: ("a", "b"), 3: ("c", "a")}


def tagseq_outcome(seq):
    text = "".join(TAG_TOKENS[t] for t in seq)
    got = parse_text(text, decoy=False)
    if 0 in seq and 1 in seq and seq.index(0) < seq.index(1):
        inside = seq[seq.index(0) + 1 : seq.index(1)]
        rel = {TAG_ARROWS[t] for t in inside if t in TAG_ARROWS}
        comps = {x for pair in rel for x in pair}
        if got[0] != "PARSED" or set(got[1]) != comps or set(got[2]) != rel:
            return ("MISMATCH", f"components {sorted(comps)} relation {sorted(rel)}", str(got)[:200], text)
        return ("OK", "parsed")
    if got[0] == "ERROR" and got[1] == "PumlParsingError":
        return ("OK", "rejected")
    return ("MISMATCH", "PumlParsingError (no start tag followed by an end tag)", str(got)[:200], text)


def tagseq_draw(L, sel):
    seq = []
    for n in range(L):
        c = sel(("t", n), len(TAG_TOKENS) + 1)
        if c == 0:
            break
        seq.append(c - 1)
    return seq


def work_tagseq(inst) -> dict:
    from vf.engine.symex import AssumeFailed

    L = inst["L"]

    def fn():
        seq = tagseq_draw(L, lambda k, n: ENGINE.choice(k, n))
        if seq.count(0) > 1 or seq.count(1) > 1:
            raise AssumeFailed()
        return tagseq_outcome(seq)[:3]

    def make_payload(assign):
        return {"kind": "tagseq", "L": L, "assign": [[list(k), v] for k, v in sorted(assign.items(), key=str)]}

    keys = [(("t", n), len(TAG_TOKENS) + 1) for n in range(L)]
    return check_no_mismatch(label_of(inst), fn, 1 << 19, make_payload, replay_detail, all_keys=keys, degenerate=True, sample={"tokens": TAG_TOKENS})


def work(inst: dict) -> dict:
    if inst["part"] == "tagseq":
        return work_tagseq(inst)
    if inst["part"] == "re":
        from vf.props import c06re

        return c06re.work(inst)
    if inst["part"] == "tags":
        return work_tags(inst)
    dg = Diagram.from_json(inst["diagram"])

    def fn():
        return unify_outcome(dg, lambda k: ENGINE.branch(k))[:3]

    def make_payload(assign):
        return {"kind": "unify", "diagram": dg.as_json(), "assign": [[list(k), v] for k, v in sorted(assign.items(), key=str)]}

    return check_no_mismatch(label_of(inst), fn, 1 << 19, make_payload, replay_detail, all_keys=dg.keys(), degenerate=True, sample={"example_text": dg.build(lambda k: 1)[0]})


def work_tags(inst) -> dict:
    """A file without both tags (in order, with content between them) is rejected with PumlParsingError."""
    res = {"label": "tags", "errors": [], "violations": [], "replays": 0, "paths": 0, "forks": 0}
    for text, ok_expected in TAG_CASES:
        got = parse_text(text, real_file=True)
        res["paths"] += 1
        res["forks"] += 1
        res["replays"] += 1
        good = (got[0] == "PARSED") if ok_expected else (got[0] == "ERROR" and got[1] == "PumlParsingError")
        if not good:
            res["violations"].append({"kind": "tags", "text_in": text, "text": f"diagram text {text!r}: expected {'a parse' if ok_expected else 'PumlParsingError'}, got {got}", "signature": {"tags": text}})
    res["samples"] = [{"instance": "tags", "cases": [t for t, _ in TAG_CASES]}]
    return res


def replay_detail(payload: dict):
    if payload["kind"] == "tags":
        text = payload["text_in"]
        exp = dict(TAG_CASES).get(text, False)
        got = parse_text(text, real_file=True)
        good = (got[0] == "PARSED") if exp else (got[0] == "ERROR" and got[1] == "PumlParsingError")
        return good, f"diagram text {text!r}: got {got}", {"got": str(got)}
    if payload["kind"] == "tagseq":
        assign = {tuple(k): v for k, v in payload["assign"]}
        seq = tagseq_draw(payload["L"], lambda k, n: assign.get(k, 0))
        if seq.count(0) > 1 or seq.count(1) > 1:
            return True, "outside the assumed inputs (a tag more than once)", {}
        o = tagseq_outcome(seq)
        ok = o[0] == "OK"
        return ok, f"diagram file {''.join(TAG_TOKENS[t] for t in seq)!r}: " + (f"{o[1]} as specified" if ok else f"expected {o[1]}, got {o[2]}"), {"outcome": [str(x) for x in o[:3]]}
    if payload["kind"] == "re":
        from vf.props import c06re

        return c06re.replay_detail(payload)
    dg = Diagram.from_json(payload["diagram"])
    assign = {tuple(k): v for k, v in payload["assign"]}
    o = unify_outcome(dg, lambda k: assign.get(k, 0), real_file=True)
    text = dg.build(lambda k: assign.get(k, 0))[0].replace("\n", dg.eol)
    ok = o[0] == "OK"
    return ok, f"diagram {text!r}: " + ("parsed as drawn" if ok else f"expected {o[1]}, parser returned {o[2]}"), {"outcome": [str(x) for x in o[:3]]}


def replay(payload: dict):
    ok, text, _ = replay_detail(payload)
    return ok, text


def run(tier: str, only: str | None = None) -> int:
    rep = runner.Report(PROP, tier)
    items = instances(tier)
    if only:
        items = [i for i in items if only in label_of(i)]
    from vf.props import c06re

    rep.bounds = {
        "unify": "2 components: all 49 pairs of declaration forms x 3 name sets; 3 components: seeded sample of form triples; per ordered pair: arrow drawn, each end by alias or by name (symbolic); 6 arrow forms, bracketed / bare references, 4 line orders, noise outside the tags",
        "tag_slicing": {"tokens": TAG_TOKENS, "sequence_length": "<= 5 (quick) / 6 (thorough), each tag at most once", "concrete_cases": [t for t, _ in TAG_CASES]},
        "name_sets": NAME_SETS,
        "keyword_names": "names <word>book / <word>s.store for every alphabetic word of the parser source's own short string constants: " + ", ".join(parser_keywords()),
        "line_terminators": ["\\n", "\\r\\n"],
        "regex": c06re.BOUNDS,
    }
    rep.assumptions = [
        "unify: every path writes the assembled diagram to a real scratch file (LF or CRLF line terminators) and runs the unpatched parser on it; no stub",
        "unify instances read every arrow bit when the text is assembled: exhaustive walk, degenerate; the 'for all names / lines' weight is carried by the regex obligations",
    ] + c06re.ASSUMPTIONS
    rep.stubs = []
    runner.run_pool(work, items, rep, chunksize=1)
    return runner.finish(rep)
