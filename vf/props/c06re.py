BOUNDS = {}
ASSUMPTIONS = []
def instances(tier): return []
