"""C06 (re): z3 regex-theory obligations on the parser's own patterns (see vf/engine/smt_regex.py).

For every documented line form F with symbolic names X, Y (identifier or dotted names), symbolic whitespace and
arrow text:
  consume   F(X,Y) is wholly consumed by the body of some top-level alternative of the parser's pattern
            (unsat of  line in Doc_F  and  line not in UNION body_b),
  extract   for every alternative b, every decomposition  line = s0.A1.s1.A2.s2  with s_i in the constant parts
            of b and A_i in its named-group bodies captures exactly the drawn names
            (unsat of  line = F(X,Y)  and  decomposition  and  (importer, importee) != (X, Y)),
  disjoint  a declaration line is never matched by the dependency pattern; a match of the declaration pattern
            on an arrow line can only yield a drawn name without alias.
Every obligation also produces one witness line (a sat query) that is pushed through the real parser
(translator validation and the `_sre` side of the argument), and the repository's own .puml fixtures are
pushed through both the real `re` and the translation line by line.
"""

from __future__ import annotations

import glob
import os
import sys
import time

import z3

from vf.engine import bmc_regex as B
from vf.engine import smt_regex as R

BOUNDS = {
    "line_length": 40,
    "names": "identifier or dotted names ([A-Za-z_][A-Za-z0-9_]*)(\\.[A-Za-z_][A-Za-z0-9_]*)*, any length that fits the line",
    "extraction_line_length": "every line length up to 13 (quick) / 24 (thorough) characters, one query per length (bounded run encoding over a symbolic character vector)",
    "alphabet": "printable ASCII and TAB; a line contains no newline",
    "arrow_text": "[A-Za-z0-9_]+",
    "alias_whitespace": "exactly one whitespace character between 'as' and the alias in the extraction obligation",
}
ASSUMPTIONS = [
    "regex obligations: per-line analysis (no newline inside a line; \\s+ spanning lines is outside), ASCII alphabet (\\w is Unicode in the real engine)",
    "extraction is shown for whole-line decompositions; that the backtracking engine's leftmost-greedy match on a documented line is the whole line is exercised by replaying one witness per obligation and by the unify instances, not proved",
]

ARROW_FORMS = ["-->", "->", "<--", "<-", "-t->", "<-t-"]
REF_FORMS = ["bracket", "bare"]
DECL_FORMS = ["[N]", "component N", "component [N]"]
TIMEOUT_MS = 120000
NMAX = {"quick": 13, "thorough": 24}


def _ident():
    head = R.set_re({c for c in R.ALPHABET if c.isalpha() or c == "_"})
    tail = R.set_re(R.WORD)
    return z3.Concat(head, z3.Star(tail))


def NAME():
    i = _ident()
    return z3.Concat(i, z3.Star(z3.Concat(z3.Re("."), i)))


def WS():
    return z3.Plus(R.set_re({" ", "\t"}))


def TEXT():
    return z3.Plus(R.set_re(R.WORD))


# --- the documented forms as ASTs (for the bounded run encoding, vf/engine/bmc_regex.py) -------------------


def _lit(t: str):
    return ("cat", [("set", frozenset({c})) for c in t])


_A_IDENT = ("cat", [("set", frozenset(c for c in R.ALPHABET if c.isalpha() or c == "_")), ("rep", ("set", frozenset(R.WORD)), 0, None)])
_A_NAME = ("cat", [_A_IDENT, ("rep", ("cat", [("set", frozenset({"."})), _A_IDENT]), 0, None)])
_A_WS = ("rep", ("set", frozenset({" ", "\t"})), 1, None)
_A_TEXT = ("rep", ("set", frozenset(R.WORD)), 1, None)
_A_SIGMA_STAR = ("rep", ("set", frozenset(R.ALPHABET)), 0, None)


def _a_ref(form: str, g: str):
    n = ("group", g, _A_NAME)
    return ("cat", [_lit("["), n, _lit("]")]) if form == "bracket" else n


def arrow_doc_ast(arrow: str, lf: str, rf: str):
    """Documented arrow line; group 'importer' / 'importee' mark the drawn names."""
    right = arrow in ("-->", "->", "-t->")
    a = {"-->": _lit("-->"), "->": _lit("->"), "<--": _lit("<--"), "<-": _lit("<-"), "-t->": ("cat", [_lit("-"), _A_TEXT, _lit("->")]), "<-t-": ("cat", [_lit("<-"), _A_TEXT, _lit("-")])}[arrow]
    return ("cat", [_a_ref(lf, "importer" if right else "importee"), _A_WS, a, _A_WS, _a_ref(rf, "importee" if right else "importer")])


def decl_doc_ast(form: str, alias: bool):
    n = ("group", "name", _A_NAME)
    base = {"[N]": [_lit("["), n, _lit("]")], "component N": [_lit("component"), _A_WS, n], "component [N]": [_lit("component"), _A_WS, _lit("["), n, _lit("]")]}[form]
    if alias:
        # exactly one whitespace character before the alias: the parser's alias group is '.+', so with more the
        # split between '\\s+' and the alias is decided by the engine's greedy choice, not by the language
        base = base + [_A_WS, _lit("as"), ("set", frozenset({" ", "\t"})), ("group", "alias", _A_IDENT)]
    return ("cat", base)


def branch_ast(b: dict, pad: bool):
    items = list(b["items"])
    if pad and not b["bol"]:
        items = [_A_SIGMA_STAR] + items
    if pad and not b["eol"]:
        items = items + [_A_SIGMA_STAR]
    return ("cat", items)


_PATTERNS: dict = {}


def patterns() -> dict | None:
    """{'decl': (pattern, flags), 'dep': (...), 'tags': (...)} captured from the running parser, or None when the
    three patterns cannot be told apart by their behaviour (the per-line obligations then do not apply to this tree).

    Capture does not depend on any private name: a fresh copy of the parser module's source is executed and its public
    PumlParser().parse runs on a small real file while `re._compile` (the funnel of re.compile / re.search / re.finditer
    ...) is observed; the patterns are then recognised by what they match."""
    if _PATTERNS:
        return _PATTERNS.get("v")
    import importlib.util
    import re as _re
    import tempfile
    from pathlib import Path

    import pytestarch.diagram_extension.diagram_parser as dp

    seen: list = []
    real_compile = _re._compile

    def spy(pattern, flags):
        if isinstance(pattern, str):
            seen.append((pattern, int(flags)))
        return real_compile(pattern, flags)

    d = tempfile.mkdtemp(prefix="c06re_", dir=os.environ.get("VERIF_SCRATCH"))
    try:
        f = os.path.join(d, "probe.puml")
        with open(f, "w", encoding="utf-8") as fh:
            fh.write("title\n@startuml\n[abc] as xy\ncomponent de\nxy --> [fg]\n[fg] <-uses- de\n@enduml\ntrailer\n")
        _re._compile = spy
        try:
            spec = importlib.util.spec_from_file_location("vf_c06re_parser_copy", dp.__file__)
            mod = importlib.util.module_from_spec(spec)
            sys.modules[spec.name] = mod  # dataclasses look their module up there
            try:
                spec.loader.exec_module(mod)
                mod.PumlParser().parse(Path(f))
            finally:
                sys.modules.pop(spec.name, None)
        finally:
            _re._compile = real_compile
    except Exception:  # noqa: BLE001
        seen = []
    finally:
        import shutil

        shutil.rmtree(d, ignore_errors=True)

    def full(p, fl, line):
        try:
            return any(m.group(0).strip() == line for m in _re.finditer(_re.compile(p, fl), line))
        except Exception:  # noqa: BLE001
            return False

    def hits(p, fl, text):
        try:
            return _re.search(_re.compile(p, fl), text) is not None
        except Exception:  # noqa: BLE001
            return False

    uniq = list(dict.fromkeys(seen))
    tags = [x for x in uniq if hits(*x, "a\n@startuml\nq\n@enduml\nb") and not hits(*x, "a\nq\nb") and "(" in x[0]]
    dep = [x for x in uniq if x not in tags and full(*x, "abc --> [def]") and full(*x, "[def] <-- abc") and not full(*x, "[abc] as xy")]
    decl = [x for x in uniq if x not in tags and x not in dep and full(*x, "[abc] as xy") and full(*x, "component abc") and not full(*x, "abc --> [def]")]
    _PATTERNS["v"] = {"decl": decl[-1], "dep": dep[-1], "tags": tags[-1]} if (len(set(decl)) == 1 and len(set(dep)) == 1 and len(set(tags)) == 1) else None
    return _PATTERNS["v"]


# ---------------------------------------------------------------------------------------------------


def _ref(form: str, X):
    return z3.Concat(z3.StringVal("["), X, z3.StringVal("]")) if form == "bracket" else X


def _ref_re(form: str):
    return z3.Concat(z3.Re("["), NAME(), z3.Re("]")) if form == "bracket" else NAME()


def arrow_doc_re(arrow: str, lf: str, rf: str):
    """Regex of the documented arrow line; left/right are textual sides."""
    a = {"-->": z3.Re("-->"), "->": z3.Re("->"), "<--": z3.Re("<--"), "<-": z3.Re("<-"), "-t->": z3.Concat(z3.Re("-"), TEXT(), z3.Re("->")), "<-t-": z3.Concat(z3.Re("<-"), TEXT(), z3.Re("-"))}[arrow]
    return z3.Concat(_ref_re(lf), WS(), a, WS(), _ref_re(rf))


def arrow_doc_term(arrow: str, lf: str, rf: str, tag: str):
    """(line term, constraints, importer var, importee var)."""
    XL, XR = z3.String(f"XL{tag}"), z3.String(f"XR{tag}")
    w1, w2, t = z3.String(f"w1{tag}"), z3.String(f"w2{tag}"), z3.String(f"t{tag}")
    cons = [z3.InRe(XL, NAME()), z3.InRe(XR, NAME()), z3.Length(XL) <= 5, z3.Length(XR) <= 5, z3.InRe(w1, WS()), z3.InRe(w2, WS()), z3.Length(w1) <= 2, z3.Length(w2) <= 2]
    if "t" in arrow:
        cons += [z3.InRe(t, TEXT()), z3.Length(t) <= 3]
        a = z3.Concat(z3.StringVal("-"), t, z3.StringVal("->")) if arrow == "-t->" else z3.Concat(z3.StringVal("<-"), t, z3.StringVal("-"))
    else:
        a = z3.StringVal(arrow)
    line = z3.Concat(_ref(lf, XL), w1, a, w2, _ref(rf, XR))
    right_pointing = arrow in ("-->", "->", "-t->")
    importer, importee = (XL, XR) if right_pointing else (XR, XL)
    return line, cons, importer, importee


def decl_doc_re(form: str, alias: bool):
    n = NAME()
    base = {"[N]": z3.Concat(z3.Re("["), n, z3.Re("]")), "component N": z3.Concat(z3.Re("component"), WS(), n), "component [N]": z3.Concat(z3.Re("component"), WS(), z3.Re("["), n, z3.Re("]"))}[form]
    if alias:
        base = z3.Concat(base, WS(), z3.Re("as"), WS(), _ident())
    return base


def decl_doc_term(form: str, alias: bool, tag: str):
    N, A = z3.String(f"N{tag}"), z3.String(f"A{tag}")
    w0, w1, w2 = z3.String(f"w0{tag}"), z3.String(f"w1{tag}"), z3.String(f"w2{tag}")
    cons = [z3.InRe(N, NAME()), z3.Length(N) <= 5]
    if form == "[N]":
        line = z3.Concat(z3.StringVal("["), N, z3.StringVal("]"))
    elif form == "component N":
        line = z3.Concat(z3.StringVal("component"), w0, N)
        cons += [z3.InRe(w0, WS()), z3.Length(w0) <= 2]
    else:
        line = z3.Concat(z3.StringVal("component"), w0, z3.StringVal("["), N, z3.StringVal("]"))
        cons += [z3.InRe(w0, WS()), z3.Length(w0) <= 2]
    if alias:
        line = z3.Concat(line, w1, z3.StringVal("as"), w2, A)
        cons += [z3.InRe(A, _ident()), z3.Length(A) <= 3, z3.InRe(w1, WS()), z3.InRe(w2, WS()), z3.Length(w1) <= 2, z3.Length(w2) <= 2]
    return line, cons, N, (A if alias else None)


def decompose(b: dict, tag: str, pad_start: bool, pad_end: bool):
    """Symbolic decomposition of a line by one alternative: (line term, constraints, {group: (var, taken Bool|True)})."""
    segs, groups = R.split_at_named(b)
    cons, parts, caps = [], [], {}
    sig = R.SIGMA_STAR()
    if pad_start:
        pre = z3.String(f"pre{tag}")
        cons.append(z3.InRe(pre, sig))
        parts.append(pre)

    def emit(segs, groups, tag, taken):
        out = []
        for i, seg in enumerate(segs):
            s = z3.String(f"s{tag}_{i}")
            cons.append(z3.InRe(s, seg))
            out.append(s)
            if i < len(groups):
                g = groups[i]
                if g[0] == "?opt":
                    tk = z3.Bool(f"opt{tag}_{i}")
                    inner = emit(g[1], g[2], f"{tag}_{i}o", tk)
                    o = z3.String(f"o{tag}_{i}")
                    cons.append(z3.If(tk, o == z3.Concat(*inner) if len(inner) > 1 else o == inner[0], o == z3.StringVal("")))
                    out.append(o)
                else:
                    a = z3.String(f"A{tag}_{g[0]}")
                    cons.append(z3.InRe(a, g[1]))
                    caps[g[0]] = (a, taken)
                    out.append(a)
        return out

    parts += emit(segs, groups, tag, z3.BoolVal(True))
    if pad_end:
        post = z3.String(f"post{tag}")
        cons.append(z3.InRe(post, sig))
        parts.append(post)
    line = z3.Concat(*parts) if len(parts) > 1 else parts[0]
    return line, cons, caps


# ---------------------------------------------------------------------------------------------------


def instances(tier: str) -> list[dict]:
    out = []
    for a in ARROW_FORMS:
        for lf in REF_FORMS:
            for rf in REF_FORMS:
                out.append({"part": "re", "ob": "arrow", "arrow": a, "lf": lf, "rf": rf})
    for f in DECL_FORMS:
        for al in (False, True):
            out.append({"part": "re", "ob": "decl", "form": f, "alias": al})
    out.append({"part": "re", "ob": "fixtures"})
    for i in out:
        i["tier"] = tier
    return out


def _solver():
    s = z3.Solver()
    s.set("timeout", TIMEOUT_MS)
    return s


def _check(cons):
    s = _solver()
    s.add(*cons)
    t0 = time.time()
    r = str(s.check())
    return r, (s.model() if r == "sat" else None), time.time() - t0


def _str_of(model, term) -> str:
    v = model.eval(term, model_completion=True)
    return v.as_string() if hasattr(v, "as_string") else str(v)


def _whole_bodies(ast):
    return [R.cat_re([R.to_z3(i) for i in b["items"]]) for b in R.top_branches(ast)]


def work(inst: dict) -> dict:
    res = {"label": " ".join(f"{k}={v}" for k, v in inst.items()), "errors": [], "violations": [], "replays": 0, "paths": 0, "forks": 0, "queries": 0, "queries_unsat": 0, "queries_sat": 0, "queries_unknown": 0, "solver_s": 0.0, "functions": {"diagram_extension.diagram_parser:PumlParser._retrieve_dependencies_and_inline_modules", "diagram_extension.diagram_parser:PumlParser._retrieve_modules_declared_outside_dependencies"}}
    pats = patterns()
    if pats is None:
        # the parser no longer applies three recognisable patterns (declaration / dependency / tags) the way these
        # per-line obligations assume: they do not apply to this tree; the (unify) exploration of the real parser does
        res["samples"] = [{"instance": res["label"], "skipped": "parser patterns not recognisable by behaviour"}]
        res["over_budget"] = True
        return res
    try:
        dep_ast = R.parse(*pats["dep"])
        decl_ast = R.parse(*pats["decl"])
    except R.Unsupported as e:
        res["errors"].append(f"regex translator: unsupported construct in the parser's pattern: {e}")
        return res
    line = z3.String("line")
    sigma = z3.InRe(line, R.SIGMA_STAR())

    def q(name, cons, expect_unsat=True):
        r, m, dt = _check(cons)
        res["queries"] += 1
        res["solver_s"] += dt
        res["queries_" + r] = res.get("queries_" + r, 0) + 1
        res["paths"] += 1
        res["forks"] += 1
        if r == "unknown":
            res["errors"].append(f"solver unknown on {res['label']} / {name} after {dt:.0f}s")
        return r, m

    if inst["ob"] == "fixtures":
        n = 0
        for f in sorted(glob.glob(os.path.join(os.environ.get("VERIF_REPO", "/repo"), "tests", "**", "*.puml"), recursive=True)):
            for ln in open(f, encoding="utf-8").read().splitlines():
                for key in ("dep", "decl"):
                    n += 1
                    if not R.validate_line(*pats[key], ln):
                        res["errors"].append(f"regex translator disagrees with re on line {ln!r} of {f} for the {key} pattern")
        res["replays"] = n
        res["paths"] = res["forks"] = max(n, 1)
        res["samples"] = [{"instance": "fixtures", "lines_checked_against_real_re": n}]
        return res

    if inst["ob"] == "arrow":
        a, lf, rf = inst["arrow"], inst["lf"], inst["rf"]
        doc = arrow_doc_re(a, lf, rf)
        bodies = _whole_bodies(dep_ast)
        # consume
        r, m = q("consume", [sigma, z3.Length(line) <= 40, z3.InRe(line, doc), z3.Not(z3.InRe(line, z3.Union(*bodies) if len(bodies) > 1 else bodies[0]))])
        if r == "sat":
            _report(res, inst, "consume", _str_of(m, line), None)
        # extract, per alternative and line length (bounded run encoding)
        dline, dcons, importer, importee = arrow_doc_term(a, lf, rf, "d")
        dglu = B.Glushkov(arrow_doc_ast(a, lf, rf))
        for bi, b in enumerate(R.top_branches(dep_ast)):
            groups = R.named_groups_in(("cat", b["items"]))
            gi = [g for g in groups if g.startswith("dependor")]
            ge = [g for g in groups if g.startswith("dependee")]
            if len(gi) != 1 or len(ge) != 1:
                # group names no longer follow the dependor* / dependee* convention this obligation reads: not applicable
                res["over_budget"] = True
                res.setdefault("samples", []).append({"instance": res["label"], "skipped": f"dependency alternative {bi}: named groups {sorted(groups)}"})
                continue
            pglu = B.Glushkov(branch_ast(b, pad=False))
            for n in range(5, NMAX[inst.get("tier", "quick")] + 1):
                cs, dom = B.chars(n)
                dc, DS = B.run(dglu, cs, "d")
                pc, PS = B.run(pglu, cs, "p")
                wrong = z3.Or(*[z3.Or(B.in_group(pglu, PS, k, gi[0]) != B.in_group(dglu, DS, k, "importer"), B.in_group(pglu, PS, k, ge[0]) != B.in_group(dglu, DS, k, "importee")) for k in range(n)])
                r, m = q(f"extract/alt{bi}/n{n}", dom + dc + pc + [wrong])
                if r == "sat":
                    _report(res, inst, f"extract/alt{bi}", B.model_line(m, cs), (B.captured(m, dglu, DS, cs, "importer"), B.captured(m, dglu, DS, cs, "importee")))
                    break
        # disjoint: a match of the declaration pattern on an arrow line yields only a drawn name, no alias
        for bi, b in enumerate(R.top_branches(decl_ast)):
            groups = R.named_groups_in(("cat", b["items"]))
            name_g = [g for g in groups if g.startswith("m")]
            alias_g = [g for g in groups if g.startswith("alias")]
            if len(name_g) != 1:
                res["over_budget"] = True
                res.setdefault("samples", []).append({"instance": res["label"], "skipped": f"declaration alternative {bi}: named groups {sorted(groups)}"})
                continue
            pglu = B.Glushkov(branch_ast(b, pad=True))
            for n in range(5, NMAX[inst.get("tier", "quick")] + 1):
                cs, dom = B.chars(n)
                dc, DS = B.run(dglu, cs, "d")
                pc, PS = B.run(pglu, cs, "p")
                nm = [B.in_group(pglu, PS, k, name_g[0]) for k in range(n)]
                not_l = z3.Or(*[nm[k] != B.in_group(dglu, DS, k, "importer") for k in range(n)])
                not_r = z3.Or(*[nm[k] != B.in_group(dglu, DS, k, "importee") for k in range(n)])
                has_alias = z3.Or(*[B.in_group(pglu, PS, k, g) for g in alias_g for k in range(n)]) if alias_g else z3.BoolVal(False)
                r, m = q(f"decl-on-arrow/alt{bi}/n{n}", dom + dc + pc + [z3.Or(z3.And(not_l, not_r), has_alias)])
                if r == "sat":
                    _report(res, inst, f"decl-on-arrow/alt{bi}", B.model_line(m, cs), (B.captured(m, dglu, DS, cs, "importer"), B.captured(m, dglu, DS, cs, "importee")))
                    break
        # witness: one documented line with two different names, through the real parser
        r, m = q("witness", [line == dline, sigma, *dcons, importer != importee, z3.Length(importer) >= 3], expect_unsat=False)
        if r == "sat":
            _witness_arrow(res, inst, pats, _str_of(m, line), _str_of(m, importer), _str_of(m, importee))
        elif r == "unsat":
            res["errors"].append(f"vacuous: no documented line exists for {res['label']}")
    else:
        form, al = inst["form"], inst["alias"]
        doc = decl_doc_re(form, al)
        bodies = _whole_bodies(decl_ast)
        r, m = q("consume", [sigma, z3.Length(line) <= 40, z3.InRe(line, doc), z3.Not(z3.InRe(line, z3.Union(*bodies) if len(bodies) > 1 else bodies[0]))])
        if r == "sat":
            _report(res, inst, "consume", _str_of(m, line), None)
        dline, dcons, N, A = decl_doc_term(form, al, "d")
        dglu = B.Glushkov(decl_doc_ast(form, al))
        for bi, b in enumerate(R.top_branches(decl_ast)):
            groups = R.named_groups_in(("cat", b["items"]))
            name_g = [g for g in groups if g.startswith("m")]
            alias_g = [g for g in groups if g.startswith("alias")]
            if len(name_g) != 1:
                res["over_budget"] = True
                res.setdefault("samples", []).append({"instance": res["label"], "skipped": f"declaration alternative {bi}: named groups {sorted(groups)}"})
                continue
            pglu = B.Glushkov(branch_ast(b, pad=False))
            for n in range(3, NMAX[inst.get("tier", "quick")] + 4):
                cs, dom = B.chars(n)
                dc, DS = B.run(dglu, cs, "d")
                pc, PS = B.run(pglu, cs, "p")
                wrong = []
                for k in range(n):
                    wrong.append(B.in_group(pglu, PS, k, name_g[0]) != B.in_group(dglu, DS, k, "name"))
                    pa = z3.Or(*[B.in_group(pglu, PS, k, g) for g in alias_g]) if alias_g else z3.BoolVal(False)
                    wrong.append(pa != B.in_group(dglu, DS, k, "alias"))
                r, m = q(f"extract/alt{bi}/n{n}", dom + dc + pc + [z3.Or(*wrong)])
                if r == "sat":
                    _report(res, inst, f"extract/alt{bi}", B.model_line(m, cs), (B.captured(m, dglu, DS, cs, "name"), B.captured(m, dglu, DS, cs, "alias") if al else None))
                    break
        # disjoint: never read as an arrow
        r, m = q("decl-not-arrow", [sigma, z3.Length(line) <= 40, z3.InRe(line, doc), z3.InRe(line, R.line_language(dep_ast))])
        if r == "sat":
            _report(res, inst, "decl-not-arrow", _str_of(m, line), None)
        r, m = q("witness", [line == dline, sigma, *dcons, z3.Length(N) >= 3], expect_unsat=False)
        if r == "sat":
            _witness_decl(res, inst, pats, _str_of(m, line), _str_of(m, N), _str_of(m, A) if al else None)
        elif r == "unsat":
            res["errors"].append(f"vacuous: no documented line exists for {res['label']}")
    res["solver_s"] = round(res["solver_s"], 3)
    res.setdefault("samples", []).append({"instance": res["label"], "queries": res["queries"], "solver_s": res["solver_s"]})
    return res


def _parse_line(text_line: str):
    from vf.props.c06 import parse_text

    return parse_text("@startuml\n" + text_line + "\n@enduml\n", real_file=True)


def _witness_arrow(res, inst, pats, ln, importer, importee):
    res["replays"] += 1
    for key in ("dep", "decl"):
        if not R.validate_line(*pats[key], ln):
            res["errors"].append(f"regex translator disagrees with re on witness {ln!r} ({key} pattern)")
    got = _parse_line(ln)
    want = ("PARSED", frozenset({importer, importee}), frozenset({(importer, importee)}))
    if got != want:
        _report(res, inst, "witness", ln, (importer, importee), got)
    res.setdefault("samples", []).append({"witness_line": ln, "parsed": str(got)})


def _witness_decl(res, inst, pats, ln, name, alias):
    res["replays"] += 1
    for key in ("dep", "decl"):
        if not R.validate_line(*pats[key], ln):
            res["errors"].append(f"regex translator disagrees with re on witness {ln!r} ({key} pattern)")
    # declared component referenced by its alias (if any) from another component
    ref = alias if alias else f"[{name}]"
    from vf.props.c06 import parse_text

    got = parse_text(f"@startuml\n{ln}\n[zz9] --> {ref}\n@enduml\n", real_file=True)
    want = ("PARSED", frozenset({name, "zz9"}), frozenset({("zz9", name)}))
    if got != want:
        _report(res, inst, "witness", ln, (name, alias), got)
    res.setdefault("samples", []).append({"witness_line": ln, "parsed": str(got)})


def _report(res, inst, ob, ln, names, got=None):
    """A sat obligation: confirm on the real parser before reporting."""
    payload = {"kind": "re", "inst": inst, "obligation": ob, "line": ln, "names": list(names) if names else None}
    ok, text, detail = replay_detail(payload)
    res["replays"] += 1
    if ok:
        res["errors"].append(f"obligation {ob} of {res['label']} is sat with line {ln!r} but the real parser handles that line as documented ({text}): encoding too weak or whole-line assumption violated")
    else:
        payload.update({"text": text, "observed": detail, "signature": {"inst": inst, "ob": ob.split("/")[0]}})
        res["violations"].append(payload)


def replay_detail(payload: dict):
    """Re-parse the line with the real parser and compare with the documented meaning of the line."""
    inst, ln = payload["inst"], payload["line"]
    from vf.props.c06 import parse_text

    if inst["ob"] == "arrow":
        # documented meaning computed from the line itself
        import re as _re

        m = _re.match(r"^(\[?)([\w.]+)(\]?)[ \t]+(<-\w*-?|-\w*-?>|->)[ \t]+(\[?)([\w.]+)(\]?)$", ln)
        if not m:
            return True, f"line {ln!r} is not a documented arrow line", {}
        l, arrow, r = m.group(2), m.group(4), m.group(6)
        importer, importee = (l, r) if arrow.endswith(">") else (r, l)
        got = _parse_line(ln)
        want = ("PARSED", frozenset({importer, importee}), frozenset({(importer, importee)}) if importer != importee or True else frozenset())
        ok = got == want
        return ok, f"arrow line {ln!r}: parser returned {got}, documented meaning: {importer} depends on {importee}", {"got": str(got)}
    import re as _re

    m = _re.match(r"^(?:component[ \t]+)?(\[?)([\w.]+)(\]?)(?:[ \t]+as[ \t]+(\w+))?$", ln)
    if not m:
        return True, f"line {ln!r} is not a documented declaration line", {}
    name, alias = m.group(2), m.group(4)
    ref = alias if alias else f"[{name}]"
    got = parse_text(f"@startuml\n{ln}\n[zz9] --> {ref}\n@enduml\n", real_file=True)
    want = ("PARSED", frozenset({name, "zz9"}), frozenset({("zz9", name)}))
    ok = got == want
    return ok, f"declaration line {ln!r} then '[zz9] --> {ref}': parser returned {got}, documented meaning: components {sorted({name, 'zz9'})}, zz9 depends on {name}", {"got": str(got)}
