"""C07 - DiagramRule passes exactly when the imports conform to the diagram.

(e2e)     SYMEX: real DiagramRule(...).from_file(p).with_base_module(b) / .base_module_included_in_module_names()
          .assert_applies(ev) on a symbolic import relation; the diagram file is concrete (one per instance).
          One z3 query per instance:  PASS_code == conformance formula,  and for every potential message
          record  appears == OR over the violated generated rules of that rule's C03 'must appear' formula
          (so the error cannot stop at the first violated rule).
(naming)  relational: summary(with_base_module(p), components written `name`) ==
          summary(base_module_included_in_module_names, components written `p.name`), messages included.
(rules)   the rule list the real DiagramRule derives from a diagram: the arrow relation over 2-4 components is
          symbolic (one bit per ordered pair); the leaf compares the generated rules' configurations with the
          conformance specification (one should[-only] rule per component with arrows, one should-not rule per
          component with undrawn targets).
(aggr)    MultipleRuleApplier over 1-6 appliers whose outcomes (pass / AssertionError(msg_i)) are symbolic bits:
          passes iff all pass, message = the failing messages joined in order.
"""

from __future__ import annotations

import itertools
import os
import random
import shutil
import tempfile

import z3

from vf.engine import runner
from vf.engine.mm import check_no_mismatch
from vf.engine.rulesym import SymArch, explore_fn, solver, solver_delta, validate_samples
from vf.engine.stubs_graph import real_architecture
from vf.engine.symex import ENGINE
from vf.oracles.messages import expected_records, records_of
from vf.oracles.rules import PyLogic, Z3Logic, verdict
from vf.universes import RuleSpec, evaluate

PROP = "C07"
CAPS = {"quick": 1 << 17, "thorough": 1 << 20}

_SCRATCH = None


def scratch() -> str:
    global _SCRATCH
    if _SCRATCH is None or not os.path.isdir(_SCRATCH):
        _SCRATCH = tempfile.mkdtemp(prefix="c07_", dir=os.environ.get("VERIF_SCRATCH"))
        import atexit

        atexit.register(shutil.rmtree, _SCRATCH, True)
    return _SCRATCH


UNIVERSES = {
    # name: (modules, base, components (relative names), extras)
    "U2": (["p", "p.a", "p.a.x", "p.b", "p.z"], "p", ["a", "b"]),
    "U3": (["p", "p.a", "p.b", "p.c"], "p", ["a", "b", "c"]),
    "U3z": (["p", "p.a", "p.b", "p.c", "p.z"], "p", ["a", "b", "c"]),
    "U3x": (["p", "p.a", "p.a.x", "p.b", "p.c"], "p", ["a", "b", "c"]),
    "U3adv": (["a", "a.a", "a.aa", "a.a_a", "a.ab"], "a", ["a", "aa", "a_a"]),
    "U4": (["p", "p.a", "p.b", "p.c", "p.d"], "p", ["a", "b", "c", "d"]),
    "U2deep": (["r", "r.s", "r.s.a", "r.s.b", "r.s.a.x", "r.t"], "r.s", ["a", "b"]),
    # five and six components (the property's upper bound), a sub module of a component and a bystander; only used
    # with a window of symbolic pairs over a seeded concrete relation
    "U5": (["p", "p.a", "p.a.x", "p.b", "p.c", "p.d", "p.e", "p.z"], "p", ["a", "b", "c", "d", "e"]),
    "U6": (["p", "p.a", "p.b", "p.b.y", "p.c", "p.d", "p.e", "p.f", "p.z"], "p", ["a", "b", "c", "d", "e", "f"]),
}


def diagram_text(comps, arrows, prefix: str | None, style: int = 0) -> str:
    def nm(c):
        return f"{prefix}.{c}" if prefix else c

    lines = ["@startuml"]
    for c in comps:
        lines.append(f"[{nm(c)}]")
    for i, (a, b) in enumerate(arrows):
        form = (i + style) % 4
        if form == 0:
            lines.append(f"[{nm(a)}] --> [{nm(b)}]")
        elif form == 1:
            lines.append(f"[{nm(b)}] <-- [{nm(a)}]")
        elif form == 2:
            lines.append(f"[{nm(a)}] -> [{nm(b)}]")
        else:
            lines.append(f"[{nm(a)}] -uses-> [{nm(b)}]")
    lines.append("@enduml")
    return "\n".join(lines) + "\n"


def write_diagram(name: str, text: str) -> str:
    p = os.path.join(scratch(), name)
    with open(p, "w", encoding="utf-8") as f:
        f.write(text)
    return p


def build_diagram_rule(path: str, base: str | None, should_only: bool):
    from pathlib import Path

    from pytestarch import DiagramRule

    # the documented default mode is should-only: built through the default constructor, so that the default itself
    # is part of what is judged; should mode through the explicit flag
    r = (DiagramRule() if should_only else DiagramRule(should_only_rule=False)).from_file(Path(path))
    return r.with_base_module(base) if base is not None else r.base_module_included_in_module_names()


def generated_specs(base: str, comps, arrows, should_only: bool) -> list[RuleSpec]:
    """The conformance specification as a list of module rules (C01 semantics each)."""
    full = {c: f"{base}.{c}" for c in comps}
    out = []
    for a in comps:
        targets = sorted(full[b] for (x, b) in arrows if x == a)
        if targets:
            out.append(RuleSpec("should_only" if should_only else "should", "import", False, "named", (full[a],), "named", tuple(targets)))
    for a in comps:
        non = sorted(full[b] for b in comps if b != a and (a, b) not in arrows)
        if non:
            out.append(RuleSpec("should_not", "import", False, "named", (full[a],), "named", tuple(non)))
    return out


def outcome_with_records(rule, ev):
    o = evaluate(rule, ev, with_message=True)
    if o[0] == "FAIL":
        return ("FAIL", records_of(o[1]))
    return o


# ---------------------------------------------------------------------------------------------------


def relations(comps, tier: str, rnd: random.Random):
    pairs = [(a, b) for a in comps for b in comps if a != b]
    if len(pairs) <= 6:
        rels = [tuple(p for p, bit in zip(pairs, bits) if bit) for bits in itertools.product((0, 1), repeat=len(pairs))]
    else:
        rels = [tuple(p for p in pairs if rnd.random() < 0.4) for _ in range(24 if tier == "quick" else 80)]
    return rels


def instances(tier: str) -> list[dict]:
    rnd = random.Random(runner.seed() + 7)
    out = []
    plan = ["U2", "U3", "U3z", "U3adv"] if tier == "quick" else ["U2", "U3", "U3z", "U3x", "U3adv", "U4", "U2deep"]
    for u in plan:
        nodes, base, comps = UNIVERSES[u]
        rels = relations(comps, tier, rnd)
        if tier == "quick" and len(rels) > 24:
            rels = rnd.sample(rels, 24)
        for rel in rels:
            for so in (True, False):
                out.append({"part": "e2e", "u": u, "arrows": [list(p) for p in rel], "should_only": so, "cap": CAPS[tier]})
            out.append({"part": "naming", "u": u, "arrows": [list(p) for p in rel], "should_only": True, "cap": CAPS[tier]})
    # 5-6 components: seeded arrow relations; the import relation is concrete where the diagram is satisfied exactly
    # (drawn arrows present, nothing else), except for a window of 12 symbolic pairs around the components
    from vf.universes import random_window

    for u in ("U5", "U6"):
        nodes, base, comps = UNIVERSES[u]
        for _ in range(8 if tier == "quick" else 60):
            rel = tuple(p for p in [(a, b) for a in comps for b in comps if a != b] if rnd.random() < 0.25)
            win, _bg = random_window(rnd, nodes, 12, density=0.0, focus=[f"{base}.{c}" for c in comps])
            conform = [[f"{base}.{a}", f"{base}.{b}"] for a, b in rel]
            noise = [list(p) for p in _bg]
            for so in (True, False):
                out.append({"part": "e2e", "u": u, "arrows": [list(p) for p in rel], "should_only": so, "cap": CAPS[tier], "window": [list(p) for p in win], "background": conform if rnd.random() < 0.7 else conform + noise})
            out.append({"part": "naming", "u": u, "arrows": [list(p) for p in rel], "should_only": True, "cap": CAPS[tier], "window": [list(p) for p in win], "background": conform})
    for n in (2, 3, 4) if tier == "quick" else (2, 3, 4):
        for so in (True, False):
            out.append({"part": "rules", "n": n, "should_only": so})
    for n in range(1, 7):
        out.append({"part": "aggr", "n": n})
    out.append({"part": "reconf", "L": 3 if tier == "quick" else 4})
    return out


def label_of(i) -> str:
    if i["part"] in ("e2e", "naming"):
        return f"{i['part']} {i['u']} arrows={i['arrows']} should_only={i['should_only']}" + (f" window#{abs(hash(str(i['window']))) % 997}" if "window" in i else "")
    return " ".join(f"{k}={v}" for k, v in i.items())


# ---------------------------------------------------------------------------------------------------


# --- (reconf): one DiagramRule object re-pointed between applications -------------------------------------

RECONF_NODES = ["p", "p.a", "p.b", "q", "q.a", "q.b"]
RECONF_VARS = [("p.a", "p.b"), ("p.b", "p.a"), ("q.a", "q.b"), ("q.b", "q.a")]
RECONF_VOCAB = [("from_file", "f1"), ("from_file", "f2"), ("with_base_module", "p"), ("with_base_module", "q"), ("apply", None)]
RECONF_FILES = {"f1": "@startuml\n[a] --> [b]\n@enduml\n", "f2": "@startuml\n[b] --> [a]\n@enduml\n"}


def reconf_outcome(L: int, ev, choose):
    """A history of re-configurations and applications of ONE DiagramRule object; the last application must give
    what a fresh object with the then-current file and base module gives."""
    from pathlib import Path

    from pytestarch import DiagramRule

    paths = {k: write_diagram(f"reconf_{os.getpid()}_{k}.puml", v) for k, v in RECONF_FILES.items()}
    rule = DiagramRule().from_file(Path(paths["f1"])).with_base_module("p")
    cur = {"file": "f1", "base": "p"}
    hist = []
    for n in range(L):
        name, arg = RECONF_VOCAB[choose(n)]
        hist.append((name, arg))
        if name == "from_file":
            rule.from_file(Path(paths[arg]))
            cur["file"] = arg
        elif name == "with_base_module":
            rule.with_base_module(arg)
            cur["base"] = arg
        else:
            outcome_with_records(rule, ev)
    got = outcome_with_records(rule, ev)
    fresh = outcome_with_records(DiagramRule().from_file(Path(paths[cur["file"]])).with_base_module(cur["base"]), ev)
    if got != fresh:
        return ("MISMATCH", f"what a fresh DiagramRule on {cur} gives: {fresh}", f"{got}")
    return ("OK", got[0])


def work_reconf(inst) -> dict:
    L = inst["L"]
    no_var = [(x, y) for x in RECONF_NODES for y in RECONF_NODES if x != y and (x, y) not in RECONF_VARS]
    arch = SymArch(RECONF_NODES, extra_no_var=no_var)

    def fn():
        return reconf_outcome(L, arch.ev, lambda n: ENGINE.choice(("h", n), len(RECONF_VOCAB)))

    def make_payload(assign):
        return {"kind": "reconf", "L": L, "assign": [[list(k), v] for k, v in sorted(assign.items(), key=str)]}

    keys = [(("e", x, y), 2) for x, y in arch.pairs] + [(("h", n), len(RECONF_VOCAB)) for n in range(L)]
    return check_no_mismatch(label_of(inst), fn, 1 << 17, make_payload, replay_detail, all_keys=keys, sample={"vocabulary": [f"{a}({b})" for a, b in RECONF_VOCAB], "modules": RECONF_NODES})


def work(inst: dict) -> dict:
    if inst["part"] == "reconf":
        return work_reconf(inst)
    if inst["part"] == "rules":
        return work_rules(inst)
    if inst["part"] == "aggr":
        return work_aggr(inst)
    before = solver().stats()
    nodes, base, comps = UNIVERSES[inst["u"]]
    arrows = [tuple(a) for a in inst["arrows"]]
    so = inst["should_only"]
    label = label_of(inst)
    tagname = f"{abs(hash(label)) % 10**9}"
    p_rel = write_diagram(f"d{tagname}_rel.puml", diagram_text(comps, arrows, None))
    arch = SymArch(nodes, window=[tuple(p) for p in inst["window"]], background=[tuple(p) for p in inst["background"]]) if "window" in inst else SymArch(nodes)
    res = {"label": label, "errors": [], "violations": [], "replays": 0, "paths": 0, "forks": 0, "explore_s": 0.0, "functions": set(), "variables_total": len(arch.pairs)}

    def summarise(path, b, first=True):
        def fn():
            return outcome_with_records(build_diagram_rule(path, b, so), arch.ev)

        summ, funcs, over = explore_fn(fn, inst["cap"], record_functions=first)
        res["functions"] |= funcs
        if over:
            res.update({"over_budget": True, "paths": res["paths"] + inst["cap"]})
            return None
        res["paths"] += summ.paths
        res["forks"] += summ.forks
        res["explore_s"] += summ.explore_s
        n, errs = validate_samples(summ, arch, lambda edges: outcome_with_records(build_diagram_rule(path, b, so), real_architecture(nodes, edges)), k=1)
        res["replays"] += n
        res["errors"] += errs
        return summ

    s1 = summarise(p_rel, base)
    if s1 is None:
        return res
    res["dont_care_vars"] = len(arch.pairs) - len(s1.keys_in_tree())
    queries = []
    if inst["part"] == "e2e":
        specs = generated_specs(base, comps, arrows, so)
        L = Z3Logic(arch.var)
        oracle = z3.And(*[verdict(sp, nodes, L, usable=arch.usable) for sp in specs]) if specs else z3.BoolVal(True)
        code_pass = s1.formula(lambda o: o[0] == "PASS", arch.pool)
        code_err = s1.formula(lambda o: o[0] == "ERROR", arch.pool)
        must: dict = {}
        for sp in specs:
            fails = z3.Not(verdict(sp, nodes, L, usable=arch.usable))
            for r, f in expected_records(sp, nodes, L, arch.usable).items():
                t = z3.And(fails, f)
                must[r] = z3.Or(must[r], t) if r in must else t
        observed = set()
        for o in s1.outcomes():
            if o[0] == "FAIL":
                observed |= o[1]
        diffs = [s1.formula(lambda o, r=r: o[0] == "FAIL" and r in o[1], arch.pool) != must.get(r, z3.BoolVal(False)) for r in sorted(observed | set(must), key=repr)]
        queries.append(("verdict", z3.Or(code_err, code_pass != oracle)))
        if diffs:
            queries.append(("message", z3.Or(*diffs)))
    else:
        p_abs = write_diagram(f"d{tagname}_abs.puml", diagram_text(comps, arrows, base))
        s2 = summarise(p_abs, None, first=False)
        if s2 is None:
            return res
        outs = set(s1.outcomes()) | set(s2.outcomes())
        queries.append(("naming", z3.Or(*[s1.formula(lambda o, O=O: o == O, arch.pool) != s2.formula(lambda o, O=O: o == O, arch.pool) for O in outs])))
    for qname, q in queries:
        st, model = solver().check(q)
        if st == "unknown":
            res["errors"].append(f"solver unknown on {label} / {qname}")
        elif st == "sat":
            edges = arch.model_edges(model)
            payload = {"kind": inst["part"], "query": qname, "u": inst["u"], "arrows": inst["arrows"], "should_only": so, "edges": [list(e) for e in edges], "label": label}
            ok, text, detail = replay_detail(payload)
            res["replays"] += 1
            if ok:
                res["errors"].append(f"non-reproducing counterexample: {label}/{qname} edges={edges} {text}")
            else:
                payload.update({"observed": detail, "text": text, "signature": {"part": inst["part"], "query": qname, "u": inst["u"], "arrows": inst["arrows"], "should_only": so}})
                res["violations"].append(payload)
            break
    if s1.sample_paths:
        a, o = s1.sample_paths[0]
        res["samples"] = [{"instance": label, "diagram": diagram_text(comps, arrows, None), "path_edges": arch.edges_of(a), "outcome": repr(o)[:200], "paths": s1.paths}]
    for f in (p_rel, os.path.join(scratch(), f"d{tagname}_abs.puml")):
        try:
            os.remove(f)
        except OSError:
            pass
    res.update(solver_delta(before))
    return res


# --- (rules): the generated rule list for a symbolic arrow relation -------------------------------------


def _cfg_of(rule) -> tuple:
    c = rule._configuration
    verb = "should" if c.should else "should_only" if c.should_only else "should_not" if c.should_not else "?"
    return (verb, c.import_, c.except_present, tuple(sorted(f.identifier for f in c.modules_to_check or ())), tuple(sorted(f.identifier for f in c.modules_to_check_against or ())), c.rule_object_anything)


def rules_outcome(comps, base, so, drawn):
    arrows = [(a, b) for a in comps for b in comps if a != b and drawn((a, b))]
    path = write_diagram(f"r{os.getpid()}.puml", diagram_text(comps, arrows, None, style=len(arrows)))
    from pytestarch.diagram_extension.diagram_parser import PumlParser

    dr = build_diagram_rule(path, base, so)
    try:
        deps = dr._add_base_module_path(PumlParser().parse(dr._file_path))
        rules = dr._convert_to_rules(deps)
        got = sorted(_cfg_of(r) for r in rules)
    except AttributeError as e:
        # the private helpers this part reads (rule list before application) were renamed or reshaped: the part does
        # not apply to this tree; the end-to-end instances judge the same conformance through assert_applies
        return ("OK", f"skipped_interface_changed: {e}")
    except Exception as e:  # noqa: BLE001
        return ("MISMATCH", "a rule list", f"{type(e).__name__}: {e}")
    # the explicit flag and the default constructor must agree in should-only mode
    if so:
        from pathlib import Path

        from pytestarch import DiagramRule

        ex = DiagramRule(should_only_rule=True).from_file(Path(path)).with_base_module(base)
        got_explicit = sorted(_cfg_of(r) for r in ex._convert_to_rules(ex._add_base_module_path(PumlParser().parse(ex._file_path))))
        if got_explicit != got:
            return ("MISMATCH", f"DiagramRule() == DiagramRule(should_only_rule=True): {got_explicit}", str(got))
    want = sorted((s.verb, True, False, tuple(sorted(s.subjects)), tuple(sorted(s.objects)), False) for s in generated_specs(base, comps, arrows, so))
    if got != want:
        return ("MISMATCH", str(want), str(got))
    return ("OK", len(want))


def work_rules(inst) -> dict:
    comps = ["a", "b", "c", "d"][: inst["n"]]
    base = "p"
    so = inst["should_only"]
    pairs = [(a, b) for a in comps for b in comps if a != b]

    def fn():
        return rules_outcome(comps, base, so, lambda p: ENGINE.branch(("arrow", p[0], p[1])) == 1)

    def make_payload(assign):
        return {"kind": "rules", "comps": comps, "should_only": so, "arrows": [list(p) for p in pairs if assign.get(("arrow", p[0], p[1]), 0) == 1]}

    return check_no_mismatch(label_of(inst), fn, 1 << 13, make_payload, replay_detail, all_keys=[(("arrow", a, b), 2) for a, b in pairs], degenerate=True, sample={"components": comps})


# --- (aggr): MultipleRuleApplier over symbolic rule outcomes ---------------------------------------------


class _StubApplier:
    def __init__(self, i, fails):
        self.i = i
        self.fails = fails

    def assert_applies(self, evaluable):
        if self.fails(self.i):
            raise AssertionError(f"message {self.i}\nsecond line of {self.i}")


def aggr_outcome(n, fails):
    from pytestarch.query_language.multiple_rule_applier import MultipleRuleApplier

    appliers = [_StubApplier(i, fails) for i in range(n)]
    try:
        MultipleRuleApplier(appliers).assert_applies(None)
        got = ("PASS",)
    except AssertionError as e:
        got = ("FAIL", e.args[0] if e.args else None)
    except Exception as e:  # noqa: BLE001
        got = ("ERROR", type(e).__name__)
    failing = [i for i in range(n) if fails(i)]
    want = ("PASS",) if not failing else ("FAIL", "\n".join(f"message {i}\nsecond line of {i}" for i in failing))
    return ("OK",) if got == want else ("MISMATCH", str(want), str(got))


def work_aggr(inst) -> dict:
    n = inst["n"]

    def fn():
        return aggr_outcome(n, lambda i: ENGINE.branch(("fails", i)) == 1)

    def make_payload(assign):
        return {"kind": "aggr", "n": n, "failing": [i for i in range(n) if assign.get(("fails", i), 0) == 1]}

    return check_no_mismatch(label_of(inst), fn, 1 << 10, make_payload, replay_detail, all_keys=[(("fails", i), 2) for i in range(n)], degenerate=True)


# ---------------------------------------------------------------------------------------------------


def replay_detail(payload: dict):
    kind = payload["kind"]
    if kind == "reconf":
        assign = {tuple(k): v for k, v in payload["assign"]}
        edges = [(k[1], k[2]) for k, v in assign.items() if k[0] == "e" and v == 1]
        o = reconf_outcome(payload["L"], real_architecture(RECONF_NODES, edges), lambda n: assign.get(("h", n), 0))
        hist = [RECONF_VOCAB[assign.get(("h", n), 0)] for n in range(payload["L"])]
        return o[0] == "OK", f"DiagramRule().from_file(f1).with_base_module('p') then {hist} then assert_applies on imports {edges}: " + ("as a fresh object" if o[0] == "OK" else f"expected {o[1]}, got {o[2]}"), {"outcome": [str(x)[:300] for x in o]}
    if kind == "aggr":
        f = set(payload["failing"])
        o = aggr_outcome(payload["n"], lambda i: i in f)
        return o[0] == "OK", f"MultipleRuleApplier over {payload['n']} appliers, failing {sorted(f)}: " + ("as specified" if o[0] == "OK" else f"expected {o[1]}, got {o[2]}"), {"outcome": list(map(str, o))}
    if kind == "rules":
        arrows = {tuple(a) for a in payload["arrows"]}
        o = rules_outcome(payload["comps"], "p", payload["should_only"], lambda p: p in arrows)
        return o[0] == "OK", f"diagram over {payload['comps']} with arrows {sorted(arrows)} (should_only={payload['should_only']}): generated rules " + ("as specified" if o[0] == "OK" else f"expected {o[1]}, got {o[2]}"), {"outcome": list(map(str, o))}
    nodes, base, comps = UNIVERSES[payload["u"]]
    arrows = [tuple(a) for a in payload["arrows"]]
    so = payload["should_only"]
    edges = [tuple(e) for e in payload["edges"]]
    text_rel = diagram_text(comps, arrows, None)
    p_rel = write_diagram(f"replay_{os.getpid()}_rel.puml", text_rel)
    got = outcome_with_records(build_diagram_rule(p_rel, base, so), real_architecture(nodes, edges))
    head = f"diagram {text_rel!r} with_base_module({base!r}), should_only={so}, modules {nodes}, imports {edges}: "
    if kind == "naming":
        text_abs = diagram_text(comps, arrows, base)
        p_abs = write_diagram(f"replay_{os.getpid()}_abs.puml", text_abs)
        got2 = outcome_with_records(build_diagram_rule(p_abs, None, so), real_architecture(nodes, edges))
        ok = got == got2
        return ok, head + f"-> {repr(got)[:300]}; written with full names {text_abs!r} and base_module_included_in_module_names -> {repr(got2)[:300]}", {"relative": repr(got), "absolute": repr(got2)}
    specs = generated_specs(base, comps, arrows, so)
    L = PyLogic(edges)
    exp_pass = all(verdict(sp, nodes, L) for sp in specs)
    exp_recs = set()
    for sp in specs:
        if not verdict(sp, nodes, L):
            exp_recs |= {r for r, c in expected_records(sp, nodes, L, lambda p: True).items() if c}
    if got[0] == "ERROR":
        return False, head + f"real code -> {got}, conformance -> {'PASS' if exp_pass else 'FAIL'}", {"real": repr(got)}
    if (got[0] == "PASS") != exp_pass:
        return False, head + f"real code -> {got[0]}, conformance -> {'PASS' if exp_pass else 'FAIL'}", {"real": repr(got)}
    if got[0] == "FAIL" and got[1] != exp_recs:
        return False, head + f"message records not expected: {sorted(got[1] - exp_recs, key=repr)}; expected but missing (error stopped early?): {sorted(exp_recs - got[1], key=repr)}", {"real": repr(got)}
    return True, head + f"real code and conformance agree ({got[0]})", {"real": repr(got)}


def replay(payload: dict):
    ok, text, _ = replay_detail(payload)
    return ok, text


def run(tier: str, only: str | None = None) -> int:
    rep = runner.Report(PROP, tier)
    items = instances(tier)
    if only:
        items = [i for i in items if only in label_of(i)]
    rep.bounds = {
        "universes": {u: {"modules": UNIVERSES[u][0], "base": UNIVERSES[u][1], "components": UNIVERSES[u][2]} for u in sorted({i["u"] for i in items if "u" in i})},
        "relations": "every arrow relation over 2-3 components; seeded sample over 4 components; seeded arrow relations over 5 and 6 components with a window of 12 symbolic import pairs over the relation that satisfies the diagram exactly (optionally plus seeded noise)",
        "modes": "should-only and should; with_base_module vs names written in full",
        "generated_rules": "every arrow relation over 2-4 components (symbolic arrow bits)",
        "aggregation": "1-6 rule appliers with symbolic pass/fail",
        "reconfiguration": "histories of length 3 (quick) / 4 (thorough) over {from_file(f1|f2), with_base_module(p|q), apply} on one DiagramRule object",
        "path_cap_per_summary": CAPS[tier],
    }
    rep.assumptions = [
        "SymDiGraph stub (validated on sampled paths and every model); diagram files are concrete, written to a scratch directory that is removed at exit",
        "conformance = conjunction of the C01 reference semantics of one should[-only] rule per component with arrows and one should-not rule per component with undrawn targets; message oracle = union of the C03 'must appear' formulas of the violated rules",
        "components pairwise unrelated; sub-modules and bystanders present in some universes",
    ]
    rep.stubs = ["SymDiGraph"]
    runner.run_pool(work, items, rep, chunksize=1)
    return runner.finish(rep)
