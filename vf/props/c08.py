"""C08 - exclusions remove exactly the matching files / directories, nothing else.

(xh)    CrossHair kernels: real convert_partial_match_to_regex + real re.match, pattern AND path symbolic, vs the
        glob semantics (vf/kernels/k08.py).
(z3str) z3 string theory: the converter's AST translated at run time (vf/engine/smt_strings.py) vs the glob
        semantics for all patterns / paths up to length 6 (closed form) and 4 (existential cross-check).
(walk)  SYMEX: the real Parser(filter, root).parse(module_path) on a symbolic file system with a SYMBOLIC
        exclusion predicate injected through the constructor's own `filter` parameter; module present iff its
        path exists and no ancestor-or-self path at or below module_path is excluded; excluded files are never
        opened.  Nothing below an excluded directory is ever asked, the query still quantifies over it.
(e2e)   relational, end to end: get_evaluable_architecture(exclusions=t) and (regex_exclusions=equivalent) vs the
        unfiltered scan on a symbolic tree whose names contain regex metacharacters; t built from the tree's own
        names in the four glob shapes.
"""

from __future__ import annotations

import os
import random
import re
import shutil
import tempfile
import time

import z3

from vf.engine import runner
from vf.engine.mm import check_no_mismatch
from vf.engine.stubs_fs import FSModel, SymPath, abs_path, dotted, graph_view, symfs
from vf.engine.symex import ENGINE
from vf.engine.xh import kernel_names, replay_kernel, run_kernels

PROP = "C08"
CAPS = {"quick": 1 << 16, "thorough": 1 << 19}

# --- (walk) ------------------------------------------------------------------------------------------------

WALK_CANDS = {
    "r": "dir",
    "r/a": "dir",
    "r/a/m.py": "file",
    "r/a/x": "dir",
    "r/a/x/u.py": "file",
    "r/a/x/w.py": "file",
    "r/b.py": "file",
    "r/t": "dir",
    "r/t/c.py": "file",
    "r/n.txt": "file",
}


class SymFilter:
    """Stands in for FileFilter: is_excluded(path) is a symbolic atom per path."""

    def __init__(self, model: FSModel):
        self.model = model
        self.asked: list = []

    def is_excluded(self, obj) -> bool:
        rel = self.model.rel(obj)
        self.asked.append(rel)
        return ENGINE.branch(("ex", rel)) == 1


def walk_outcome(mp_rel: str, model: FSModel):
    from pytestarch.eval_structure_generation.file_import.parser import Parser

    with symfs(model):
        model.opened.clear()
        flt = SymFilter(model)
        try:
            mods, asts = Parser(flt, SymPath(abs_path("r"))).parse(SymPath(abs_path(mp_rel)))
        except Exception as e:  # noqa: BLE001
            return ("MISMATCH", "a module list", f"{type(e).__name__}: {e}")
        # reference walk (asks the same atoms lazily)
        want, want_files = [], []

        def visit(rel):
            if not model.exists(rel):
                return
            kind = model.cands[rel]
            if kind == "file" and not rel.endswith(".py"):
                return
            if ENGINE.branch(("ex", rel)) == 1:
                return
            want.append(dotted(rel))
            if kind == "file":
                want_files.append(rel)
            for c in model.kids.get(rel, []):
                visit(c)

        visit(mp_rel)
        opened = list(model.opened)
    if sorted(mods) != sorted(want):
        return ("MISMATCH", f"modules {sorted(want)}", f"modules {sorted(mods)}")
    if sorted(m.name for m in asts) != sorted(dotted(f) for f in want_files):
        return ("MISMATCH", f"parsed files {sorted(dotted(f) for f in want_files)}", f"parsed files {sorted(m.name for m in asts)}")
    if sorted(opened) != sorted(want_files):
        return ("MISMATCH", f"opened files {sorted(want_files)}", f"opened files {sorted(opened)}")
    return ("OK", len(want))


# --- (e2e) -------------------------------------------------------------------------------------------------

E2E_CANDS = {
    "r": "dir",
    "r/a+b.py": "file",
    "r/c(1)": "dir",
    "r/c(1)/k.py": "file",
    "r/c(1)/k2.py": "file",
    "r/x$y.py": "file",
    "r/ab.py": "file",
    "r/aab.py": "file",
    "r/test": "dir",
    "r/test/t.py": "file",
    "r/mytest.py": "file",
    "r/testx.py": "file",  # its path has the directory path r/test as a raw string prefix
    "r/g\\h.py": "file",  # a backslash is an ordinary character of a POSIX file name (and a regex metacharacter)
}
E2E_LINES = {
    "r/ab.py": ["import r.aab", "import r.test.t"],
    "r/c(1)/k.py": ["import r.ab", "import r.mytest"],
    "r/test/t.py": ["import r.ab", "import ext_lib.tool"],
    # 'from r import test' names the PACKAGE r.test (a directory): it stays a module when only the files below it are
    # excluded, and the import of it must stay as it is
    "r/mytest.py": ["import r.aab", "from r import test"],
}
P = "/symfs/"
# pattern sets scanned with externals INCLUDED: a file exclusion pattern that matches no path but, read as text, the
# dotted name of an imported external module (ext_lib.tool) - exclusions are about files and directories only
INCLUDE_EXTERNALS = {("*ext_lib*",), ("*tool", "*/k2.py")}


def ext_kw(patterns) -> dict:
    return {"exclude_external_libraries": False} if tuple(patterns) in INCLUDE_EXTERNALS else {}


PATTERN_SETS = [
    ("*ext_lib*",),
    ("*tool", "*/k2.py"),
    ("*a+b.py",),
    ("*/t.py",),
    ("*g\\h.py",),
    ("*g/h.py", "*\\*"),
    ("*c(1)*",),
    (P + "r/c(1)",),
    (P + "r/x$y.py",),
    ("*test",),
    ("*test*",),
    (P + "r/a*",),
    ("*/ab.py",),
    ("*ab.py",),
    ("*k.py", "*x$y*"),
    ("*(1)", "*aab.py", P + "r/test*"),
    ("*",),
    ("*.py",),
    ("nomatch",),
    ("*$*",),
    ("*k*",),
    # shapes without a leading '*': the literal text must start at the beginning of the path
    ("test",),
    ("r/test*",),
    ("ab.py", "c(1)"),
    ("symfs/r/c(1)*", "mytest.py"),
    # only one leading / trailing '*' is a wildcard, further asterisks are literal text
    ("**ab.py",),
    ("*test**", "**"),
    # wildcard-free literal paths: full match only - a sibling whose path merely starts with the text stays
    (P + "r/test",),
    (P + "r/a", P + "r/c(1)/k"),
    (P + "r/ab.py", "r"),
    # tuples in which one pattern's text occurs inside another pattern: each pattern still counts on its own
    ("test*", "*test"),
    ("*mytest.py", "my*", "*k2.py"),
    ("a*", "*a*"),
    (P + "r/c*", "*c(1)/k.py"),
]


# regex_exclusions that are not translations of glob shapes: capturing groups, numbered / named back-references, top
# level alternation, no end anchor (prefix semantics of re.match), inline flags.  Reference semantics: a path is
# excluded iff re.match(p, path) succeeds for at least ONE pattern p, each pattern on its own.
REGEX_SETS = [
    (r".*/(a|c)\+b\.py$", r".*/(\w)\1b\.py$"),
    (r".*/(\w)\1b\.py$", r".*/(a|c)\+b\.py$"),
    (r".*/(?P<n>t)es(?P=n)$",),
    (r".*test",),
    (r".*/test/[a-z]\.py$",),
    (r".*g\\h\.py$", r".*g/h\.py$"),
    (P + "r/ab",),
    (r"r/ab\.py",),
    (r".*/ab\.py$|.*/k\.py$",),
    (r".*/k\.py$", r"(?i).*/AB\.PY$"),
    (r".*/c\((\d)\)/k\1?\.py$", r".*/([a-z])\1b\.py$", r".*\$y\.py$"),
    (r"test.*", r".*test$"),
    (r".*/a.*", r".*/aab\.py$", r".*/c\(1\)$"),
]


def renamed_from_imports(model: FSModel, existing: set, gone: set) -> set:
    """Imports that legitimately CHANGE their target when a module is excluded: 'from P import n' names P.n while that
    is a scanned module and P otherwise (the naming rule of C02), so excluding P.n turns the import into one of P.
    The property's 'exactly as in the scan without that pattern' cannot hold for this one import; it is left out of
    the comparison (don't-care), every other import is compared."""
    import ast as _ast

    dc = set()
    for f in existing:
        for ln in model.lines.get(f, []):
            node = _ast.parse(ln).body[0]
            if isinstance(node, _ast.ImportFrom) and node.level == 0 and node.module:
                for al in node.names:
                    if f"{node.module}.{al.name}" in gone:
                        dc.add((dotted(f), node.module))
    return dc


def e2e_regex_judge(model: FSModel, existing: set, patterns, base: str, plain, filtered):
    import re

    if plain[0] != "SCAN" or filtered[0] != "SCAN":
        return ("MISMATCH", "two architectures", f"{plain[:3]} {filtered[:3]}")

    def excluded(rel):
        parts = rel.split("/")
        return any(re.match(p, base + "/".join(parts[:i])) is not None for i in range(1, len(parts) + 1) for p in patterns)

    gone = {dotted(p) for p in existing if (model.cands[p] == "dir" or p.endswith(".py")) and excluded(p)}
    _, n0, i0, h0 = plain
    want_nodes = set() if "r" in gone else n0 - gone
    want_imp = {(u, v) for u, v in i0 if u in want_nodes and v in want_nodes}
    _, n1, i1, h1 = filtered
    dc = renamed_from_imports(model, existing, gone)
    want_imp, i1 = want_imp - dc, i1 - dc
    if n1 != want_nodes:
        return ("MISMATCH", f"regex_exclusions: modules {sorted(want_nodes)}", f"modules {sorted(n1)}")
    if i1 != want_imp:
        return ("MISMATCH", f"regex_exclusions: imports {sorted(want_imp)}", f"imports {sorted(i1)}")
    return ("OK", len(want_nodes), len(gone))


def e2e_regex_outcome(patterns, model: FSModel):
    with symfs(model):
        plain = e2e_scan("/symfs")
        filtered = e2e_scan("/symfs", exclusions=(), regex_exclusions=tuple(patterns))
        existing = {p for p in sorted(model.cands, key=lambda q: q.count("/")) if model.exists(p)}
    return e2e_regex_judge(model, existing, patterns, "/symfs/", plain, filtered)


def glob_match(p: str, s: str) -> bool:
    if p == "*":
        return True
    lead, trail = p.startswith("*"), p.endswith("*") and len(p) >= 2
    t = p[(1 if lead else 0):(len(p) - 1 if trail else len(p))]
    return (t in s) if lead and trail else s.endswith(t) if lead else s.startswith(t) if trail else s == t


def equivalent_regex(p: str) -> str:
    if p == "*":
        return ".*"
    lead, trail = p.startswith("*"), p.endswith("*") and len(p) >= 2
    t = p[(1 if lead else 0):(len(p) - 1 if trail else len(p))]
    body = "".join("\\" + c if not c.isalnum() and c != "_" else c for c in t)
    return (".*" if lead else "") + body + (".*" if trail else "$")


def e2e_scan(base: str, **kw):
    from pytestarch import get_evaluable_architecture

    root = os.path.join(base, "r")
    try:
        ev = get_evaluable_architecture(root, root, **kw)
    except Exception as e:  # noqa: BLE001
        return ("ERROR", type(e).__name__, str(e)[:120])
    return ("SCAN",) + graph_view(ev)


def e2e_judge(model: FSModel, existing: set, patterns, base: str, plain, filtered, filtered_re):
    if plain[0] != "SCAN" or filtered[0] != "SCAN" or filtered_re[0] != "SCAN":
        return ("MISMATCH", "three architectures", f"{plain[:2]} {filtered[:2]} {filtered_re[:2]}")

    def excluded(rel):
        parts = rel.split("/")
        return any(glob_match(p, base + "/".join(parts[:i])) for i in range(1, len(parts) + 1) for p in patterns)

    gone = {dotted(p) for p in existing if (model.cands[p] == "dir" or p.endswith(".py")) and excluded(p)}
    _, n0, i0, h0 = plain
    internal_all = {dotted(p) for p in existing if model.cands[p] == "dir" or p.endswith(".py")}
    want_nodes = (n0 & internal_all) - gone
    # external modules (scans with externals included) stay exactly as far as a remaining module imports them
    for u, v in i0:
        if u in want_nodes and v not in internal_all:
            parts = v.split(".")
            want_nodes |= {".".join(parts[:i]) for i in range(1, len(parts) + 1)}
    if "r" in gone:
        want_nodes = set()
    want_imp = {(u, v) for u, v in i0 if u in want_nodes and v in want_nodes}
    dc = renamed_from_imports(model, existing, gone)
    want_imp = want_imp - dc
    for name, sc in (("exclusions", filtered), ("regex_exclusions", filtered_re)):
        _, n1, i1, h1 = sc
        i1 = i1 - dc
        if n1 != want_nodes:
            return ("MISMATCH", f"{name}: modules {sorted(want_nodes)}", f"modules {sorted(n1)}")
        if i1 != want_imp:
            return ("MISMATCH", f"{name}: imports {sorted(want_imp)}", f"imports {sorted(i1)}")
    return ("OK", len(want_nodes), len(gone))


def e2e_outcome(patterns, model: FSModel):
    rx = tuple(equivalent_regex(p) for p in patterns)
    with symfs(model):
        kw = ext_kw(patterns)
        plain = e2e_scan("/symfs", **kw)
        filtered = e2e_scan("/symfs", exclusions=tuple(patterns), **kw)
        filtered_re = e2e_scan("/symfs", exclusions=(), regex_exclusions=rx, **kw)
        existing = {p for p in sorted(model.cands, key=lambda q: q.count("/")) if model.exists(p)}
    return e2e_judge(model, existing, patterns, "/symfs/", plain, filtered, filtered_re)


# --- (z3str) -----------------------------------------------------------------------------------------------


def work_z3str(inst) -> dict:
    import pytestarch.utils.partial_match_to_regex_converter as mod
    from vf.engine import smt_strings as S

    res = {"label": label_of(inst), "errors": [], "violations": [], "replays": 0, "paths": 0, "forks": 0, "queries": 0, "queries_unsat": 0, "queries_sat": 0, "queries_unknown": 0, "solver_s": 0.0, "functions": {"utils.partial_match_to_regex_converter:convert_partial_match_to_regex"}}
    fn = mod.convert_partial_match_to_regex
    p, s, t = z3.String("p"), z3.String("s"), z3.String("t")
    try:
        paths = S.encode_converter(fn, mod, p)
        code = z3.BoolVal(False)
        for cond, toks in paths:
            code = z3.Or(code, z3.And(*cond, S.match_meaning(toks, s)) if cond else S.match_meaning(toks, s))
    except S.Unsupported as e:
        # the converter's source is no longer in the small straight-line shape the AST -> SMT-LIB translation reads
        # (startswith / endswith / slices / conditional re-assignment / f-strings): this encoding does not apply to the
        # tree; the CrossHair kernels execute the real function on symbolic strings whatever its shape
        res["over_budget"] = True
        res["samples"] = [{"instance": res["label"], "skipped": f"string-theory translator: {e}"[:300]}]
        return res
    res["paths"] = res["forks"] = len(paths)
    # translator validation: the repository's own converter examples and a few more, through both
    samples = [("*a", "bca"), ("a*", "abc"), ("*a*", "bac"), ("a", "a"), ("a", "ab"), ("*", "x"), ("**", ""), ("a.b", "aXb"), ("*a+", "ba+"), ("*.py", "x.py"), ("x*", "y"), ("*a*", "b")]
    for pp, ss in samples:
        sol = z3.Solver()
        sol.add(p == z3.StringVal(pp), s == z3.StringVal(ss))
        sol.add(code)
        enc = str(sol.check()) == "sat"
        real = S.python_eval(fn, pp, ss)
        res["replays"] += 1
        if enc != real:
            res["errors"].append(f"string-theory translator disagrees with the real function on ({pp!r}, {ss!r}): encoding {enc}, real {real}")
    define, meaning = S.glob_oracle(p, s, t)
    alphabet = z3.Star(z3.Union(z3.Range(" ", "~")))
    L = inst["L"]
    t0 = time.time()
    tried = []
    # ladder of bounds: `unknown` (time-out, e.g. on a loaded machine) at length L is retried once with a longer
    # time-out and then at L-1, L-2; the bound that was actually decided is what the evidence states.  Never below 4.
    ladder = [(L, 300000), (L, 900000)] + [(b, 600000) for b in range(L - 1, 3, -1)] if L <= 6 else [(b, 300000) for b in range(L, 3, -1)]
    for bound, timeout_ms in ladder:
        sol = z3.Solver()
        sol.set("timeout", timeout_ms)
        sol.add(z3.InRe(p, alphabet), z3.InRe(s, alphabet), z3.Length(p) >= 1, z3.Length(p) <= bound, z3.Length(s) <= bound, define, code != meaning)
        r = str(sol.check())
        res["queries"] += 1
        res["queries_" + r] += 1
        tried.append({"bound": bound, "timeout_s": timeout_ms // 1000, "result": r})
        if r != "unknown":
            L = bound
            break
    res["solver_s"] = round(time.time() - t0, 3)
    if r == "unknown":
        res["errors"].append(f"solver unknown on {res['label']}")
    elif r == "sat":
        m = sol.model()
        pp, ss = m.eval(p, model_completion=True).as_string(), m.eval(s, model_completion=True).as_string()
        payload = {"kind": "glob", "pattern": pp, "path": ss}
        ok, text, detail = replay_detail(payload)
        res["replays"] += 1
        if ok:
            res["errors"].append(f"non-reproducing counterexample ({pp!r}, {ss!r}): {text}")
        else:
            payload.update({"text": text, "observed": detail, "signature": {"glob": [pp, ss]}})
            res["violations"].append(payload)
    res["samples"] = [{"instance": res["label"], "converter_paths": len(paths), "token_shapes": [[tk[1] if tk[0] == "LIT" else "<escaped text>" for tk in toks.toks] for _, toks in paths], "bound_decided": L, "bound_asked": inst["L"], "ladder": tried}]
    return res


# --- plumbing ----------------------------------------------------------------------------------------------


def instances(tier: str) -> list[dict]:
    out = [{"part": "kernel", "name": k, "tier": tier} for k in kernel_names("vf.kernels.k08")]
    out.append({"part": "z3str", "L": 6 if tier == "quick" else 7})
    out.append({"part": "z3str", "L": 4})
    for mp in ("r", "r/a", "r/a/x"):
        out.append({"part": "walk", "mp": mp, "cap": CAPS[tier]})
    for ps in PATTERN_SETS:
        out.append({"part": "e2e", "patterns": list(ps), "cap": CAPS[tier], "tier": tier})
    for ps in REGEX_SETS:
        out.append({"part": "e2e-regex", "patterns": list(ps), "cap": CAPS[tier], "tier": tier})
    return out


def label_of(i) -> str:
    return " ".join(f"{k}={v}" for k, v in i.items() if k not in ("tier", "cap"))


def _walk_model(mp):
    fixed = {}
    p = mp
    while "/" in p:
        fixed[p] = True
        p = os.path.dirname(p)
    return FSModel(WALK_CANDS, {}, fixed=fixed)


def work(inst: dict) -> dict:
    if inst["part"] == "kernel":
        res = run_kernels("vf.kernels.k08", inst["tier"], [inst["name"]])
        res["label"] = label_of(inst)
        return res
    if inst["part"] == "z3str":
        return work_z3str(inst)
    if inst["part"] == "walk":
        model = _walk_model(inst["mp"])

        def fn():
            return walk_outcome(inst["mp"], model)

        def make_payload(assign):
            return {"kind": "walk", "mp": inst["mp"], "assign": [[list(k), v] for k, v in sorted(assign.items(), key=str)]}

        keys = model.all_keys() + [(("ex", p), 2) for p in WALK_CANDS]
        return check_no_mismatch(label_of(inst), fn, inst["cap"], make_payload, replay_detail, all_keys=keys, sample={"candidate_paths": sorted(WALK_CANDS)})
    patterns = tuple(inst["patterns"])
    model = FSModel(E2E_CANDS, E2E_LINES, fixed=e2e_fixed(patterns, inst.get("tier", "thorough")))
    if inst["part"] == "e2e-regex":

        def fn3():
            return e2e_regex_outcome(patterns, model)

        def make_payload3(assign):
            return {"kind": "e2e-regex", "patterns": list(patterns), "fixed": model.fixed, "assign": [[list(k), v] for k, v in sorted(assign.items(), key=str)]}

        return check_no_mismatch(label_of(inst), fn3, inst["cap"], make_payload3, replay_detail, all_keys=model.all_keys(), sample={"candidate_paths": sorted(E2E_CANDS), "regex_exclusions": list(patterns)})

    def fn2():
        return e2e_outcome(patterns, model)

    def make_payload2(assign):
        return {"kind": "e2e", "patterns": list(patterns), "fixed": model.fixed, "assign": [[list(k), v] for k, v in sorted(assign.items(), key=str)]}

    return check_no_mismatch(label_of(inst), fn2, inst["cap"], make_payload2, replay_detail, all_keys=model.all_keys(), sample={"candidate_paths": sorted(E2E_CANDS), "patterns": list(patterns)})


def e2e_fixed(patterns, tier: str) -> dict:
    """Quick tier: a candidate FILE without import lines whose name shares no two-character fragment with any
    pattern is always present (it must still survive every pattern) instead of carrying an existence bit."""
    if tier != "quick":
        return {}
    frags = set()
    for p in patterns:
        core = p.replace(P, "").replace(".py", "").strip("*")
        if len(core) < 2:
            continue  # a generic pattern ('*', '*.py') matches every file alike
        frags |= {core[i : i + 2] for i in range(len(core) - 1)}
        frags |= {f.replace("\\", "") for f in frags}
    fixed = {}
    for c, kind in E2E_CANDS.items():
        if kind != "file" or c in E2E_LINES:
            continue
        name = c[2:].replace(".py", "")
        if not any(name[i : i + 2] in frags for i in range(len(name) - 1)):
            fixed[c] = True
    return fixed


class _ConcreteFilter:
    def __init__(self, base, excluded):
        self.base, self.excluded = base, excluded

    def is_excluded(self, obj) -> bool:
        return os.path.relpath(str(obj), self.base) in self.excluded


def replay_detail(payload: dict):
    kind = payload["kind"]
    if kind == "kernel":
        return replay_kernel(payload)
    if kind == "glob":
        from vf.kernels.k08 import public

        ok, text = public(payload["pattern"], payload["path"])
        return ok, text, {}
    assign = {tuple(k): v for k, v in payload["assign"]}
    d = tempfile.mkdtemp(prefix="c08_", dir=os.environ.get("VERIF_SCRATCH"))
    try:
        if kind == "walk":
            from pathlib import Path

            from pytestarch.eval_structure_generation.file_import.parser import Parser

            model = _walk_model(payload["mp"])
            model.materialise(assign, d)
            ex, _ = model.concrete(assign)
            excluded = {p for p in WALK_CANDS if assign.get(("ex", p), 0) == 1}
            mods, asts = Parser(_ConcreteFilter(d, excluded), Path(d) / "r").parse(Path(d) / payload["mp"])
            want = []

            def visit(rel):
                if rel not in ex or (model.cands[rel] == "file" and not rel.endswith(".py")) or rel in excluded:
                    return
                want.append(dotted(rel))
                for c in model.kids.get(rel, []):
                    visit(c)

            visit(payload["mp"])
            ok = sorted(mods) == sorted(want) and sorted(m.name for m in asts) == sorted(w for w in want if (w.replace(".", "/") + ".py") in ex)
            return ok, f"tree {sorted(ex)}, excluded paths {sorted(excluded)}, module_path {payload['mp']}: Parser.parse gives modules {sorted(mods)}, expected {sorted(want)}", {"modules": sorted(mods)}
        model = FSModel(E2E_CANDS, E2E_LINES, fixed=payload.get("fixed", {}))
        model.materialise(assign, d)
        ex, _ = model.concrete(assign)
        patterns = tuple(p.replace("/symfs/", d + "/") for p in payload["patterns"])
        if kind == "e2e-regex":
            o = e2e_regex_judge(model, ex, patterns, d + "/", e2e_scan(d), e2e_scan(d, exclusions=(), regex_exclusions=patterns))
            ok = o[0] == "OK"
            return ok, f"tree {sorted(ex)} with regex_exclusions {patterns}: " + ("as specified" if ok else f"expected {o[1]}, got {o[2]}"), {"outcome": [str(x)[:300] for x in o]}
        rx = tuple(equivalent_regex(p) for p in patterns)
        kw = ext_kw(patterns)
        o = e2e_judge(model, ex, patterns, d + "/", e2e_scan(d, **kw), e2e_scan(d, exclusions=patterns, **kw), e2e_scan(d, exclusions=(), regex_exclusions=rx, **kw))
        ok = o[0] == "OK"
        return ok, f"tree {sorted(ex)} with exclusions {patterns}: " + ("as specified" if ok else f"expected {o[1]}, got {o[2]}"), {"outcome": [str(x)[:300] for x in o]}
    finally:
        shutil.rmtree(d, ignore_errors=True)


def replay(payload: dict):
    ok, text, _ = replay_detail(payload)
    return ok, text


def run(tier: str, only: str | None = None) -> int:
    rep = runner.Report(PROP, tier)
    items = instances(tier)
    if only:
        items = [i for i in items if only in label_of(i)]
    rep.bounds = {
        "kernels": "pattern and path <= 3 chars over {a,*,.,+} (thorough) / <= 2 (quick); <= 2 chars over {*,(,[,\\\\,$,^,|,?}",
        "z3_strings": "pattern (non-empty) and path <= 6 (quick) / 7 (thorough) printable ASCII characters, closed form; cross-check instance at 4",
        "walk": {"candidate_paths": sorted(WALK_CANDS), "module_paths": ["r", "r/a", "r/a/x"], "exclusion": "one symbolic atom per path"},
        "e2e": {"candidate_paths": sorted(E2E_CANDS), "pattern_sets": [list(p) for p in PATTERN_SETS], "regex_sets": [list(p) for p in REGEX_SETS]},
    }
    rep.assumptions = [
        "paths contain no newline ('.' does not match it and '$' matches before a trailing one)",
        "re.escape is modelled as 'the escaped text matches exactly the text' in the z3 encoding; the kernels run the real re",
        "SymFS stub; exclusion predicate injected through Parser's own filter parameter (walk); e2e uses the real FileFilter",
        "e2e lines are plain 'import X' statements (a 'from P import n' line legitimately names P once n is excluded)",
    ]
    rep.stubs = ["SymFS", "SymFilter (walk)"]
    items.sort(key=lambda i: 0 if i["part"] == "kernel" else 1)
    runner.run_pool(work, items, rep, chunksize=1)
    return runner.finish(rep)
