"""C09 - level_limit yields the quotient graph and preserves verdicts above the limit.

(a) XH kernels (vf/kernels/k09.py): `_flatten_graph_node` (symbolic name and k) and the level adjustment for
    module_path below root_path.
(b) SYMEX, construction: real `NetworkxGraph(all_modules, imports, k)`; symbolic: presence of each candidate
    import between modules of a depth-3/4 tree; leaf compares nodes / hierarchy / import edges with the quotient
    of the full relation (degenerate: construction reads every import).
(c) SYMEX, verdict preservation: the full graph and the level-k graph (hierarchy built by the real constructor
    with level_limit=k; import edge a->b present iff OR e[x,y] over x,y truncating to a,b) over the SAME
    variables; for every rule whose named modules lie at or above level k (sub-module parents strictly above):
        exists e.  class(outcome_full(e)) != class(outcome_flat(e))     must be unsat.
"""

from __future__ import annotations

import os
import itertools

import z3

from vf.engine import runner
from vf.engine.mm import check_no_mismatch
from vf.engine.rulesym import SymArch, explore_fn, solver, solver_delta, validate_samples
from vf.engine.stubs_graph import inner_digraph, real_architecture, split_edges, symbolic_architecture
from vf.engine.symex import ENGINE
from vf.engine.xh import kernel_names, replay_kernel, run_kernels
from vf.oracles.rules import ambiguous_pairs
from vf.universes import SHAPES, RuleSpec, build_rule, evaluate, is_anc_or_self, related

PROP = "C09"
CAPS = {"quick": 1 << 16, "thorough": 1 << 19}

TREES = {
    "D5a": ["p", "p.a", "p.a.x", "p.b", "p.c"],
    "D5b": ["p", "p.a", "p.a.x", "p.b", "p.b.y"],
    "D5c": ["p", "p.a", "p.a.x", "p.a.x.u", "p.b"],
    "D5p": ["a", "a.a", "a.a.a", "a.aa", "a.aa.a"],  # prefix-sibling names
    "D6a": ["p", "p.a", "p.a.x", "p.a.x.u", "p.b", "p.b.y"],
    "D6b": ["p", "p.a", "p.a.x", "p.a.z", "p.b", "p.b.y"],
    "D7": ["p", "p.a", "p.a.x", "p.a.x.u", "p.a.z", "p.b", "p.b.y"],
}


def trunc(n: str, k: int) -> str:
    return ".".join(n.split(".")[: k + 1])


def level(n: str) -> int:
    return n.count(".")


def depth(nodes) -> int:
    return max(level(n) for n in nodes)


def is_file(n: str, nodes) -> bool:
    return not any(m != n and is_anc_or_self(n, m) for m in nodes)


# ---------------------------------------------------------------------------------------------------
# (b) construction


def construction_outcome(nodes, cands, k, present, reverse=False):
    """cands may name importees that are NOT modules of the architecture (excluded / non-existent files below a
    known package): such an import is no import of the architecture, with or without a limit, and must not
    influence what happens to the other imports - whatever the order of the import list (reverse)."""
    from pytestarch.eval_structure.networkxgraph import NetworkxGraph
    from pytestarch.eval_structure_generation.file_import.import_types import AbsoluteImport

    edges = [c for c in cands if present(c)]
    if reverse:
        edges = edges[::-1]
    known = set(nodes)
    try:
        g = NetworkxGraph(list(nodes), [AbsoluteImport(x, y) for x, y in edges], k)
    except Exception as e:  # noqa: BLE001
        return ("MISMATCH", "a graph", f"{type(e).__name__}: {e}")
    got_nodes = set(g.nodes)
    got_imp, got_hier = split_edges(inner_digraph(g))
    want_nodes = {trunc(n, k) for n in nodes}
    want_imp = {(trunc(x, k), trunc(y, k)) for x, y in edges if trunc(x, k) != trunc(y, k) and x in known and y in known}
    want_hier = {(n.rsplit(".", 1)[0], n) for n in want_nodes if "." in n}
    if got_nodes != want_nodes:
        return ("MISMATCH", f"modules {sorted(want_nodes)}", f"modules {sorted(got_nodes)}")
    if got_imp != want_imp:
        return ("MISMATCH", f"imports {sorted(want_imp)}", f"imports {sorted(got_imp)}")
    if got_hier != want_hier:
        return ("MISMATCH", f"hierarchy {sorted(want_hier)}", f"hierarchy {sorted(got_hier)}")
    return ("OK", len(want_imp))


def candidates(nodes, limit: int, seed: int):
    """Candidate imports: importer a file module, importee any module that is not an ancestor-or-self of it
    nor it of the importee (real scans cannot produce those from a file)."""
    import random

    files = [n for n in nodes if is_file(n, nodes)]
    c = [(x, y) for x in files for y in nodes if x != y and not is_anc_or_self(x, y)]
    random.Random(seed).shuffle(c)
    return sorted(c[:limit])


def unknown_candidates(nodes, real: list, limit: int):
    """Imports of names that are not modules of the architecture, chosen so that they flatten onto the same node
    pair as a real candidate and sort before / after it in the import list."""
    out = []
    for x, y in real:
        if "." not in y:
            continue
        pkg = y.rsplit(".", 1)[0]
        for leaf in ("a0", "zz0"):
            u = (x, f"{pkg}.{leaf}")
            if u[1] not in nodes and u not in out and not is_anc_or_self(u[1], x):
                out.append(u)
        if len(out) >= limit:
            break
    return out[:limit]


# ---------------------------------------------------------------------------------------------------
# (c) verdict preservation


def rules_above(nodes, k: int, tier: str) -> list[RuleSpec]:
    named = [n for n in nodes if level(n) <= k]
    parents = [n for n in nodes if level(n) < k and not is_file(n, nodes)]
    out = []

    def idents(kind):
        return named if kind == "named" else parents

    for sk in ("named", "sub"):
        for ok in ("named", "sub"):
            for s in idents(sk):
                for o in idents(ok):
                    if related(s, o):
                        # overlapping subject / object: an import inside one level-k module (dropped by the
                        # quotient by definition) is then an import between subject and object; the
                        # property's consequence does not follow and C01 gives no reference either
                        continue
                    for verb, direction, exc in SHAPES:
                        out.append(RuleSpec(verb, direction, exc, sk, (s,), ok, (o,)))
    for sk in ("named", "sub"):
        for s in idents(sk):
            for d in ("import", "imported"):
                out.append(RuleSpec("should_not", d, False, sk, (s,), "named", (), True))
    if True:
        for S in itertools.combinations(named, 2):
            for o in named:
                if o not in S and not any(related(o, x) for x in S) and not related(*S):
                    for verb, direction, exc in SHAPES:
                        out.append(RuleSpec(verb, direction, exc, "named", S, "named", (o,)))
    return out


def flat_and_full(nodes, k):
    """(full SymArch, flat evaluable) over the same atoms e[x,y]."""
    no_var = [(x, y) for x in nodes for y in nodes if x != y and is_anc_or_self(x, y)]
    full = SymArch(nodes, tag="e", extra_no_var=no_var)
    pairs = full.pairset
    pre: dict = {}
    for n in nodes:
        pre.setdefault(trunc(n, k), []).append(n)

    def edge_fn(a, b):
        for x in pre.get(a, ()):
            for y in pre.get(b, ()):
                if (x, y) in pairs and ENGINE.branch(("e", x, y)) == 1:
                    return True
        return False

    flat_ev, flat_sym = symbolic_architecture(nodes, tag="e", edge_fn=edge_fn, level_limit=k)
    return full, flat_ev


def cls(o):
    return o[0] if o[0] != "ERROR" else o


# ---------------------------------------------------------------------------------------------------


def instances(tier: str) -> list[dict]:
    out = [{"part": "kernel", "name": n, "tier": tier} for n in kernel_names("vf.kernels.k09")]
    trees = ["D5a", "D5b", "D5c", "D5p", "D6a"] if tier == "quick" else list(TREES)
    for t in trees:
        nodes = TREES[t]
        for k in range(0, depth(nodes) + 1):
            out.append({"part": "construct", "tree": t, "k": k, "ncand": 9 if tier == "quick" else 12})
            if k < depth(nodes):
                out.append({"part": "construct", "tree": t, "k": k, "ncand": 10 if tier == "quick" else 13, "unknown": 4})
    out.append({"part": "construct", "tree": "D5a", "k": None, "ncand": 9})
    # (d) end to end on a symbolic file system: level_limit scan == quotient of the unlimited scan of the same tree
    for mp, lines in (("r", "qualified"), ("r/a", "qualified"), ("r/a", "parent-relative"), ("r/a/x", "deep"), ("r", "deep")):
        for k in (1, 2) if tier == "quick" else (0, 1, 2, 3):
            out.append({"part": "scan", "mp": mp, "lines": lines, "k": k, "cap": CAPS[tier]})
    # ... and with external libraries included (externals deeper than the limit are truncated like every other name)
    for k in (0, 1, 2):
        out.append({"part": "scan", "mp": "r", "lines": "externals", "k": k, "cap": CAPS[tier]})
        if k in (1, 2):
            out.append({"part": "scan", "mp": "r", "lines": "externals-filtered", "k": k, "cap": CAPS[tier]})
    ctrees = ["D5a", "D5b", "D5c", "D5p"] if tier == "quick" else ["D5a", "D5b", "D5c", "D5p", "D6a", "D6b"]
    for t in ctrees:
        nodes = TREES[t]
        for k in range(1, depth(nodes)):
            for spec in rules_above(nodes, k, tier):
                if len(nodes) > 5 and spec.direction != "import":
                    continue  # be-imported-by searches on 6 modules inspect every variable (2^26 paths)
                out.append({"part": "verdict", "tree": t, "k": k, "spec": spec.as_json(), "cap": CAPS[tier]})
    return out


def label_of(i) -> str:
    if i["part"] == "kernel":
        return f"kernel {i['name']}"
    if i["part"] == "construct":
        return f"construct {i['tree']} k={i['k']}" + (" +imports of unknown modules, list order symbolic" if i.get("unknown") else "")
    if i["part"] == "scan":
        return f"scan module_path={i['mp']} lines={i['lines']} level_limit={i['k']}"
    return f"verdict {i['tree']} k={i['k']}: {RuleSpec.from_json(i['spec']).label()}"


def work(inst: dict) -> dict:
    if inst["part"] == "kernel":
        res = run_kernels("vf.kernels.k09", inst["tier"], [inst["name"]])
        res["label"] = label_of(inst)
        return res
    if inst["part"] == "construct":
        return work_construct(inst)
    if inst["part"] == "scan":
        return work_scan(inst)
    return work_verdict(inst)


def work_construct(inst) -> dict:
    nodes = TREES[inst["tree"]]
    k = inst["k"]
    cands = candidates(nodes, inst["ncand"], runner.seed())
    if k is not None and inst.get("unknown"):
        real = candidates(nodes, inst["ncand"] - inst["unknown"], runner.seed())
        cands = sorted(real + unknown_candidates(nodes, real, inst["unknown"]))

    def fn():
        if k is None:
            return _no_limit(nodes, cands)
        rev = bool(inst.get("unknown")) and ENGINE.branch(("reverse",)) == 1
        return construction_outcome(nodes, cands, k, lambda c: ENGINE.branch(("i", c[0], c[1])) == 1, rev)

    def make_payload(assign):
        return {"kind": "construct", "tree": inst["tree"], "nodes": nodes, "k": k, "imports": [list(c) for c in cands if assign.get(("i", c[0], c[1]), 0) == 1], "cands": [list(c) for c in cands], "reverse": assign.get(("reverse",), 0)}

    return check_no_mismatch(label_of(inst), fn, 1 << 15, make_payload, replay_detail, all_keys=[(("i", x, y), 2) for x, y in cands] + ([(("reverse",), 2)] if inst.get("unknown") else []), degenerate=True, sample={"modules": nodes, "level_limit": k, "candidate_imports": len(cands)})


def _no_limit(nodes, cands):
    """level_limit=None: the graph is the full relation (truncation with k >= depth)."""
    from pytestarch.eval_structure.networkxgraph import NetworkxGraph
    from pytestarch.eval_structure_generation.file_import.import_types import AbsoluteImport

    edges = [c for c in cands if ENGINE.branch(("i", c[0], c[1])) == 1]
    g = NetworkxGraph(list(nodes), [AbsoluteImport(x, y) for x, y in edges], None)
    got_imp = split_edges(inner_digraph(g))[0]
    if set(g.nodes) != set(nodes) or got_imp != set(edges):
        return ("MISMATCH", f"modules {sorted(nodes)} imports {sorted(edges)}", f"modules {sorted(g.nodes)} imports {sorted(got_imp)}")
    return ("OK", len(edges))


# --- (d) end to end ------------------------------------------------------------------------------------------


EXT_CANDS = {"r": "dir", "r/a": "dir", "r/a/x": "dir", "r/a/x/u.py": "file", "r/b.py": "file"}
EXT_LINES = {
    "r/a/x/u.py": ["import xml.etree.ElementTree", "import os.path", "import os", "import r.b"],
    "r/b.py": ["import xml.etree", "import r.a.x.u", "from os import path"],
}


def ext_model():
    from vf.engine.stubs_fs import FSModel

    return FSModel(EXT_CANDS, EXT_LINES, fixed={p: True for p in EXT_CANDS})


def _scan(base: str, mp_rel: str, k, include_externals: bool = False):
    import os

    from pytestarch import get_evaluable_architecture
    from vf.engine.stubs_fs import graph_view

    try:
        kw = {"exclude_external_libraries": False} if include_externals else {}
        if include_externals == "filtered":
            # an external exclusion pattern that matches nothing: the option must not change the architecture
            kw["external_exclusions"] = ("zz_no_such_library*",)
        ev = get_evaluable_architecture(os.path.join(base, "r"), os.path.join(base, mp_rel), level_limit=k, **kw)
    except Exception as e:  # noqa: BLE001
        return ("ERROR", type(e).__name__, str(e)[:120])
    return ("SCAN",) + graph_view(ev)


def scan_judge(mp_rel: str, k: int, full, flat):
    if full[0] != "SCAN" or flat[0] != "SCAN":
        return ("MISMATCH", "two architectures", f"{full[:3]} / {flat[:3]}")
    total = k + mp_rel.count("/")  # k levels below module_path, names count from the root directory
    _, n, imp, hier = full
    want_n = {trunc(x, total) for x in n}
    want_i = {(trunc(u, total), trunc(v, total)) for u, v in imp if trunc(u, total) != trunc(v, total)}
    want_h = {(x.rsplit(".", 1)[0], x) for x in want_n if "." in x}
    _, fn, fi, fh = flat
    if fn != want_n:
        return ("MISMATCH", f"modules {sorted(want_n)}", f"modules {sorted(fn)}")
    # an import from a truncated package to its own DIRECT child coincides with a hierarchy pair (one edge per ordered
    # node pair); every other import - also child -> ancestor and ancestor -> deeper descendant - is a separate edge
    dc = {(u, v) for u, v in want_i | fi if v.rsplit(".", 1)[0] == u}
    if (fi - dc) != (want_i - dc):
        return ("MISMATCH", f"imports {sorted(want_i - dc)}", f"imports {sorted(fi - dc)}")
    if (fh | {(u, v) for u, v in dc}) != (want_h | {(u, v) for u, v in dc}) and fh - dc != want_h - dc:
        return ("MISMATCH", f"hierarchy {sorted(want_h)}", f"hierarchy {sorted(fh)}")
    return ("OK", len(want_n), len(want_i))


def work_scan(inst) -> dict:
    import os
    import random
    import shutil
    import tempfile

    from vf.engine.stubs_fs import symfs
    from vf.props import c04

    ext = "filtered" if inst["lines"] == "externals-filtered" else inst["lines"] == "externals"
    model = ext_model() if ext else c04.make_model({"mp": inst["mp"], "lines": inst["lines"], "fixed": ({"r/ab.py": False, "r/a_b": False, "r/notes.txt": False, "r/empty": False, "r/a/__init__.py": False} if inst["lines"] == "deep" else {"r/notes.txt": False, "r/empty": False})})
    mp, k = inst["mp"], inst["k"]

    def fn():
        with symfs(model):
            return scan_judge(mp, k, _scan("/symfs", mp, None, ext), _scan("/symfs", mp, k, ext))

    def make_payload(assign):
        return {"kind": "scan", "inst": {x: inst[x] for x in ("mp", "lines", "k")}, "assign": [[list(kk), v] for kk, v in sorted(assign.items(), key=str)]}

    res = check_no_mismatch(label_of(inst), fn, inst["cap"], make_payload, replay_detail, all_keys=model.all_keys(), sample={"candidate_paths": sorted(model.cands)})
    if not res.get("over_budget"):
        rnd = random.Random(runner.seed() * 13 + len(label_of(inst)))
        for _ in range(2):
            assign = {kk: rnd.randint(0, 1) for kk, _ in model.all_keys()}
            ENGINE.prefix, ENGINE.trace, ENGINE.assign = [], [], dict(assign)
            try:
                sym = fn()
            finally:
                ENGINE.assign = {}
            ok, text, detail = replay_detail(make_payload(assign))
            res["replays"] = res.get("replays", 0) + 1
            if (sym[0] == "OK") != ok:
                res["errors"].append(f"stub divergence on {label_of(inst)}: symbolic file system -> {sym[:3]}, real directory -> {detail}")
    return res


def work_verdict(inst) -> dict:
    before = solver().stats()
    nodes = TREES[inst["tree"]]
    k = inst["k"]
    spec = RuleSpec.from_json(inst["spec"])
    label = label_of(inst)
    full, flat_ev = flat_and_full(nodes, k)
    res = {"label": label, "errors": [], "violations": [], "replays": 0, "paths": 0, "forks": 0, "explore_s": 0.0, "functions": set(), "variables_total": len(full.pairs)}
    summs = []
    for side, ev in (("full", full.ev), ("flat", flat_ev)):
        def fn(ev=ev):
            return cls(evaluate(build_rule(spec), ev, with_message=False))

        summ, funcs, over = explore_fn(fn, inst["cap"], record_functions=side == "full")
        res["functions"] |= funcs
        if over:
            res.update({"over_budget": True, "paths": res["paths"] + inst["cap"]})
            return res
        res["paths"] += summ.paths
        res["forks"] += summ.forks
        res["explore_s"] += summ.explore_s
        summs.append(summ)
    sf, sq = summs
    # stub validation on the real stack: full graph real, flat graph = real constructor with level_limit=k
    n, errs = validate_samples(sf, full, lambda edges: cls(evaluate(build_rule(spec), real_architecture(nodes, edges), with_message=False)), k=1)
    n2, errs2 = validate_samples(sq, full, lambda edges: cls(evaluate(build_rule(spec), real_architecture(nodes, edges, level_limit=k), with_message=False)), k=1)
    res["replays"] += n + n2
    res["errors"] += errs + errs2
    keys = sf.keys_in_tree() | sq.keys_in_tree()
    res["dont_care_vars"] = len(full.pairs) - len(keys)
    outs = set(sf.outcomes()) | set(sq.outcomes())
    differ = [sf.formula(lambda o, O=O: o == O, full.pool) != sq.formula(lambda o, O=O: o == O, full.pool) for O in outs]
    amb = [z3.Not(full.var(*p)) for p in ambiguous_pairs(spec, nodes) if full.usable(p)]
    st, model = solver().check(*amb, z3.Or(*differ))
    if st == "unknown":
        res["errors"].append(f"solver unknown on {label}")
    elif st == "sat":
        edges = full.model_edges(model)
        payload = {"kind": "verdict", "tree": inst["tree"], "nodes": nodes, "k": k, "spec": inst["spec"], "edges": [list(e) for e in edges], "label": label}
        ok, text, detail = replay_detail(payload)
        res["replays"] += 2
        if ok:
            res["errors"].append(f"non-reproducing counterexample: {label} edges={edges} {text}")
        else:
            payload.update({"observed": detail, "text": text, "signature": {"tree": inst["tree"], "k": k, "spec": inst["spec"]}})
            res["violations"].append(payload)
    if sf.sample_paths:
        a, o = sf.sample_paths[0]
        res["samples"] = [{"instance": label, "path_edges": full.edges_of(a), "outcome_full": [str(x) for x in o], "paths_full": sf.paths, "paths_flat": sq.paths, "flat_modules": sorted({trunc(n, k) for n in nodes})}]
    res.update(solver_delta(before))
    return res


def replay_detail(payload: dict):
    if payload["kind"] == "kernel":
        return replay_kernel(payload)
    if payload["kind"] == "scan":
        import shutil
        import tempfile

        from vf.props import c04

        i = payload["inst"]
        ext = "filtered" if i["lines"] == "externals-filtered" else i["lines"] == "externals"
        model = ext_model() if ext else c04.make_model({"mp": i["mp"], "lines": i["lines"], "fixed": ({"r/ab.py": False, "r/a_b": False, "r/notes.txt": False, "r/empty": False, "r/a/__init__.py": False} if i["lines"] == "deep" else {"r/notes.txt": False, "r/empty": False})})
        assign = {tuple(kk): v for kk, v in payload["assign"]}
        d = tempfile.mkdtemp(prefix="c09_", dir=os.environ.get("VERIF_SCRATCH"))
        try:
            model.materialise(assign, d)
            o = scan_judge(i["mp"], i["k"], _scan(d, i["mp"], None, ext), _scan(d, i["mp"], i["k"], ext))
        finally:
            shutil.rmtree(d, ignore_errors=True)
        ex, txt = model.concrete(assign)
        return o[0] == "OK", f"tree {sorted(ex)} with lines {txt}, module_path={i['mp']}, level_limit={i['k']}: " + ("quotient of the unlimited scan" if o[0] == "OK" else f"expected {o[1]}, got {o[2]}"), {"outcome": [str(x)[:300] for x in o]}
    nodes = payload["nodes"]
    k = payload["k"]
    if payload["kind"] == "construct":
        imps = {tuple(c) for c in payload["imports"]}
        cands = [tuple(c) for c in payload["cands"]]
        if k is None:
            ENGINE.prefix, ENGINE.trace, ENGINE.assign = [], [], {("i", x, y): (1 if (x, y) in imps else 0) for x, y in cands}
            try:
                o = _no_limit(nodes, cands)
            finally:
                ENGINE.assign = {}
        else:
            o = construction_outcome(nodes, cands, k, lambda c: c in imps, bool(payload.get("reverse")))
        ok = o[0] == "OK"
        order = [c for c in cands if c in imps][:: -1 if payload.get("reverse") else 1]
        return ok, f"NetworkxGraph(modules={nodes}, imports={order}, level_limit={k}): " + ("quotient as specified" if ok else f"expected {o[1]}, got {o[2]}"), {"outcome": [str(x) for x in o]}
    spec = RuleSpec.from_json(payload["spec"])
    edges = [tuple(e) for e in payload["edges"]]
    o_full = cls(evaluate(build_rule(spec), real_architecture(nodes, edges), with_message=False))
    o_flat = cls(evaluate(build_rule(spec), real_architecture(nodes, edges, level_limit=k), with_message=False))
    ok = o_full == o_flat
    return ok, f"rule [{spec.label()}] on modules {nodes} with imports {edges}: full architecture -> {o_full}, level_limit={k} architecture -> {o_flat}", {"full": str(o_full), "flat": str(o_flat)}


def replay(payload: dict):
    ok, text, _ = replay_detail(payload)
    return ok, text


def run(tier: str, only: str | None = None) -> int:
    rep = runner.Report(PROP, tier)
    items = instances(tier)
    if only:
        items = [i for i in items if only in label_of(i)]
    rep.bounds = {
        "kernels": "names: well-formed dotted names <= 7 chars over {a,b,.}, k in 0..3; path difference <= 7 chars",
        "trees": {t: TREES[t] for t in sorted({i["tree"] for i in items if "tree" in i})},
        "k": "0..depth (construction), 1..depth-1 (verdict preservation)",
        "rules": "12 shapes + anything aliases, named modules at level <= k, 'sub modules of' parents at level < k, every ordered pair (related included); thorough adds 2-subject batches",
        "path_cap_per_summary": CAPS[tier],
    }
    rep.assumptions = [
        "importers are file modules / imports from a package to its own descendants carry no variable (a real scan cannot produce them unless b.py sits beside b/): DESIGN 3.4",
        "flat graph: hierarchy built by the real NetworkxGraph constructor with level_limit=k, import edges answered by the derived terms OR e[x,y]; validated by building the real NetworkxGraph(all_modules, imports, k) on sampled paths and on every model",
        "construction instances read every candidate import (exhaustive walk, degenerate)",
        "(d) end to end: get_evaluable_architecture(level_limit=k) on a symbolic file system (C04's candidate universe and line sets, module_path at and below root_path) equals the quotient of the unlimited scan of the same tree; imports that coincide with a hierarchy pair after truncation are don't-care",
    ]
    rep.stubs = ["SymDiGraph (full and quotient)"]
    items.sort(key=lambda i: 0 if i["part"] == "kernel" else 1)
    runner.run_pool(work, items, rep, chunksize=2)
    return runner.finish(rep)
