"""C10 - external-library options affect only external modules, never internal ones.

SYMEX, end to end on a symbolic file system: a fixed internal tree (with an internal module named like an
external one: r.handlers, and a sibling whose name extends module_path's: r/subx.py next to r/sub/) and symbolic
presence of import lines naming nested externals (logging, logging.handlers, os.path), externals sharing a
prefix / suffix with internal names (rx.util, handlers) and internal modules.  For every configuration
(exclude / include x glob and regex external-exclusion tuples, incl. patterns that textually also match internal
names) the leaf compares the real get_evaluable_architecture result with
  * excluded: no module outside module_path and no import to one,
  * included: external E present (with all its ancestors and the import) iff some present line names E and
    neither E nor an ancestor of E matches a pattern,
  * in every configuration the internal modules and the imports among them equal those of the default
    configuration (both scans run on the same path, same atoms).
"""

from __future__ import annotations

import ast
import os
import re
import shutil
import tempfile

from vf.engine import runner
from vf.engine.mm import check_no_mismatch
from vf.engine.stubs_fs import FSModel, dotted, graph_view, symfs
from vf.props.c08 import glob_match

PROP = "C10"
CAPS = {"quick": 1 << 15, "thorough": 1 << 18}

CANDS = {
    "r": "dir",
    "r/m.py": "file",
    "r/handlers.py": "file",
    "r/sub": "dir",
    "r/sub/k.py": "file",
    "r/subx.py": "file",
    "r/sub/k2.py": "file",
    "r/lib": "dir",
    "r/lib/util.py": "file",
    # a sibling PACKAGE whose name extends module_path's (r/sub_x next to r/sub): external for a scan of r/sub
    "r/sub_x": "dir",
    "r/sub_x/h.py": "file",
}
LINES = {
    "r/m.py": ["import logging", "import logging.handlers", "import os.path", "import rx.util", "import handlers", "import r.handlers", "from r.sub import k"],
    "r/sub/k.py": ["import logging.handlers", "import r.m", "import r.subx", "from . import k2", "from .. import m", "from ..lib.util import helper", "import r"],
    "r/handlers.py": ["import logging"],
}
LINES_SMALL = {
    "r/m.py": ["import logging.handlers", "import handlers", "import r.handlers", "import rx.util", "from r.sub import k"],
    # relative imports that climb above module_path r/sub (their targets are external for that scan) and an import
    # of module_path's own ancestor package
    "r/sub/k.py": ["import logging.handlers", "import r.m", "import r.subx", "from . import k2", "from .. import m", "from ..lib.util import helper", "import r"],
}
LINES_SIBLING = {
    "r/m.py": ["import r.sub_x.h", "import logging.handlers"],
    "r/sub/k.py": ["import r.sub_x.h", "import r.sub_x", "import r.m", "from ..sub_x import h", "import logging"],
}
LINES_SMALL_ROOT = {
    "r/m.py": LINES_SMALL["r/m.py"],
    "r/sub/k.py": ["import logging.handlers", "import r.m", "import r.subx", "from . import k2", "import r"],
}
FIXED = {p: True for p in CANDS if "/" in p}

CONFIGS = [
    # (exclude_external_libraries, kind, patterns)
    (True, "glob", ()),
    (False, "glob", ()),
    (False, "glob", ("logging",)),
    (False, "glob", ("logging*",)),
    (False, "glob", ("*handlers",)),
    (False, "glob", ("r*",)),
    (False, "glob", ("os", "rx.util")),
    (False, "glob", ("*.path", "handlers")),
    (False, "glob", ("*util*",)),
    (False, "regex", ("logging",)),
    (False, "regex", ("logging$",)),
    (False, "regex", (r".*\.handlers", "os")),
    (False, "regex", ("r",)),
    (False, "regex", ("handlers|rx",)),
    # patterns that match an internal ANCESTOR package of an imported internal module
    (False, "glob", ("*sub",)),
    (False, "regex", (r".*\.sub$", "logging")),
    # a pattern matching the sibling package r.sub_x itself (its sub modules go with it when it is external)
    (False, "regex", (r"r\.sub_x$",)),
    (False, "glob", ("r.sub_x", "os")),
    # the other option of the pair supplied as an explicit EMPTY tuple (legitimate; it must change nothing)
    (False, "regex+empty-glob", ("logging$", r".*\.handlers")),
    (False, "glob+empty-regex", ("logging", "*.path")),
    # FILE exclusion patterns that match no path of the tree but, read as text, the dotted names of imported externals:
    # they are about files and directories and must not touch external modules
    (False, "glob+file-exclusions", ()),
    (False, "regex+file-exclusions", ("os",)),
]
FILE_EXCLUSIONS = ("*logging*", "*.path", "*rx.util")


def pat_match(kind: str, pats, name: str) -> bool:
    if kind.startswith("glob"):
        return any(glob_match(p, name) for p in pats)
    return any(re.match(p, name) is not None for p in pats)


def ancestors(n: str):
    parts = n.split(".")
    return [".".join(parts[:i]) for i in range(1, len(parts))]


def scan(base: str, mp_rel: str, cfg):
    from pytestarch import get_evaluable_architecture

    excl, kind, pats = cfg
    kw = {"exclude_external_libraries": excl}
    if pats:
        kw["external_exclusions" if kind.startswith("glob") else "regex_external_exclusions"] = tuple(pats)
    if kind == "regex+empty-glob":
        kw["external_exclusions"] = ()
    if kind == "glob+empty-regex":
        kw["regex_external_exclusions"] = ()
    if kind.endswith("+file-exclusions"):
        kw["exclusions"] = FILE_EXCLUSIONS
    try:
        ev = get_evaluable_architecture(os.path.join(base, "r"), os.path.join(base, mp_rel), **kw)
    except Exception as e:  # noqa: BLE001
        return ("ERROR", type(e).__name__, str(e)[:120])
    return ("SCAN",) + graph_view(ev)


def judge(view, mp_rel: str, cfg, got, default):
    ex, txt = view
    excl, kind, pats = cfg
    if got[0] != "SCAN" or default[0] != "SCAN":
        return ("MISMATCH", "two architectures", f"{got[:3]} / {default[:3]}")
    mp = dotted(mp_rel)
    scanned = {dotted(p) for p in ex if (p == mp_rel or p.startswith(mp_rel + "/")) and (CANDS[p] == "dir" or p.endswith(".py"))}
    internal_nodes = scanned | set(ancestors(mp))
    _, n, imp, hier = got
    _, n0, imp0, hier0 = default

    def is_int(x):
        # modules at or below module_path; the ancestors of module_path are nodes of every configuration but lie
        # outside module_path: an import of one of them is an import of something external
        return x in scanned

    # internal part identical to the default configuration
    if {x for x in n if x in internal_nodes} != {x for x in n0 if x in internal_nodes} or not internal_nodes <= n:
        return ("MISMATCH", f"internal modules {sorted(internal_nodes)}", f"internal modules {sorted(x for x in n if x in internal_nodes)}")
    ii = {(u, v) for u, v in imp if is_int(u) and is_int(v)}
    ii0 = {(u, v) for u, v in imp0 if is_int(u) and is_int(v)}
    if ii != ii0:
        return ("MISMATCH", f"internal imports as in the default configuration {sorted(ii0)}", f"internal imports {sorted(ii)}")
    # ... and equal to what the import lines say (the C02 naming rule, restated in vf/props/c04.line_targets)
    from vf.props.c04 import line_targets

    prefix = "" if "/" not in mp_rel else dotted(os.path.dirname(mp_rel))
    want_ii = set()
    for p in ex:
        if CANDS[p] != "file" or not (p == mp_rel or p.startswith(mp_rel + "/")):
            continue
        importer = dotted(p)
        for ln in txt.get(p, []):
            for t in line_targets(ln, importer, scanned, prefix):
                if t in scanned and t != importer and t not in ancestors(importer):
                    want_ii.add((importer, t))
    anc_pairs = {(u, v) for u, v in ii if v in ancestors(u)}
    if (ii - anc_pairs) != want_ii:
        return ("MISMATCH", f"internal imports {sorted(want_ii)}", f"internal imports {sorted(ii - anc_pairs)}")
    # externals
    named = []  # (importer, external module named by a present line)
    optional_ext, optional_eimp = set(), set()
    for p in ex:
        if CANDS[p] != "file" or not (p == mp_rel or p.startswith(mp_rel + "/")):
            continue
        for ln in txt.get(p, []):
            node = ast.parse(ln).body[0]
            if isinstance(node, ast.ImportFrom) and node.level > 0:
                # relative form, resolved against the importing file's package.  'from .P import n' names P.n when
                # that is a scanned module and P otherwise; a target outside the scanned sub-tree is external here
                parts = dotted(p).split(".")
                pkg = ".".join(parts[: len(parts) - node.level])
                base = f"{pkg}.{node.module}" if node.module else pkg
                full = f"{base}.{node.names[0].name}"
                if full in scanned:
                    continue
                if node.module is None:
                    # 'from .. import m' with <package>.m not scanned: by the naming rule this names the package (an
                    # ancestor of the importer); the scan cannot know whether <package>.m is a module outside the
                    # scanned sub-tree.  Both readings are accepted (optional module / optional import).
                    if not excl and not pat_match(kind, pats, full) and not any(pat_match(kind, pats, a) for a in ancestors(full)):
                        optional_ext.add(full)
                        optional_eimp.add((dotted(p), full))
                    continue
                if base not in scanned:
                    named.append((dotted(p), base))
                continue
            names = [a.name for a in node.names] if isinstance(node, ast.Import) else [node.module]
            for nm in names:
                if nm not in scanned and not (isinstance(node, ast.ImportFrom) and f"{node.module}.{node.names[0].name}" in scanned):
                    named.append((dotted(p), nm))
    if excl:
        want_ext, want_eimp = set(), set()
    else:
        kept = [(i, e) for i, e in named if not pat_match(kind, pats, e) and not any(pat_match(kind, pats, a) for a in ancestors(e))]
        want_ext = set()
        for _, e in kept:
            want_ext |= {e, *ancestors(e)}
        want_ext -= internal_nodes
        want_eimp = set(kept)
    got_ext = {x for x in n if x not in internal_nodes}
    if not (want_ext <= got_ext <= want_ext | optional_ext):
        return ("MISMATCH", f"external modules {sorted(want_ext)}", f"external modules {sorted(got_ext)}")
    # hierarchy follows dotted names everywhere: the sub modules of a module are the modules whose name extends it
    for u, v in hier:
        if v.rsplit(".", 1)[0] != u:
            return ("MISMATCH", "hierarchy edges only from a package to <package>.<component>", f"hierarchy edge {u} -> {v}")
    above = set(ancestors(mp))
    if excl:
        to_above = {(u, v) for u, v in imp if v in above}
        if to_above:
            return ("MISMATCH", "externals excluded: no import to a module outside module_path", f"imports {sorted(to_above)}")
    got_eimp = {(u, v) for u, v in imp if not is_int(v)}
    if not (want_eimp <= got_eimp <= want_eimp | optional_eimp):
        return ("MISMATCH", f"imports of externals {sorted(want_eimp)}", f"imports of externals {sorted(got_eimp)}")
    for x in got_ext:
        if "." in x and (x.rsplit(".", 1)[0], x) not in hier:
            return ("MISMATCH", f"hierarchy edge to {x}", "missing")
    return ("OK", len(want_ext), len(ii))


def lazy_view(model: FSModel):
    ex = {p for p in sorted(model.cands, key=lambda q: q.count("/")) if model.exists(p)}
    return ex, {p: model.present_lines(p) for p in model.lines if p in ex}


def harness(inst, model):
    cfg = tuple(inst["cfg"][:2]) + (tuple(inst["cfg"][2]),)
    with symfs(model):
        got = scan("/symfs", inst["mp"], cfg)
        default = scan("/symfs", inst["mp"], (True, "glob", ()))
        view = lazy_view(model)
    return judge(view, inst["mp"], cfg, got, default)


def make_model(inst) -> FSModel:
    return FSModel(CANDS, {"full": LINES, "small": LINES_SMALL, "small-root": LINES_SMALL_ROOT, "sibling": LINES_SIBLING}[inst["lines"]], fixed=FIXED)


def instances(tier: str) -> list[dict]:
    out = []
    for cfg in CONFIGS:
        if any("sub_x" in p for p in cfg[2]):
            for mp in ("r", "r/sub"):
                out.append({"mp": mp, "cfg": [cfg[0], cfg[1], list(cfg[2])], "lines": "sibling", "cap": CAPS[tier]})
            continue
        out.append({"mp": "r", "cfg": [cfg[0], cfg[1], list(cfg[2])], "lines": "full" if tier == "thorough" else "small-root", "cap": CAPS[tier]})
        out.append({"mp": "r/sub", "cfg": [cfg[0], cfg[1], list(cfg[2])], "lines": "small", "cap": CAPS[tier]})
    for cfg in (CONFIGS[0], CONFIGS[1]):
        out.append({"mp": "r/sub", "cfg": [cfg[0], cfg[1], list(cfg[2])], "lines": "sibling", "cap": CAPS[tier]})
    if tier == "quick":
        # the full line set on the configurations that matter most
        for cfg in (CONFIGS[1], CONFIGS[4]):
            out.append({"mp": "r", "cfg": [cfg[0], cfg[1], list(cfg[2])], "lines": "full", "cap": CAPS[tier]})
    return out


def label_of(i) -> str:
    return f"module_path={i['mp']} exclude={i['cfg'][0]} {i['cfg'][1]} patterns={i['cfg'][2]} lines={i['lines']}"


def work(inst: dict) -> dict:
    model = make_model(inst)

    def fn():
        return harness(inst, model)

    def make_payload(assign):
        return {"kind": "ext", "inst": {k: v for k, v in inst.items() if k != "cap"}, "assign": [[list(k), v] for k, v in sorted(assign.items(), key=str)]}

    res = check_no_mismatch(label_of(inst), fn, inst["cap"], make_payload, replay_detail, all_keys=model.all_keys(), sample={"files": sorted(CANDS), "candidate_lines": model.lines})
    if not res.get("over_budget"):
        # stub validation: sampled assignments as real directories through the unpatched entry point
        import random

        from vf.engine.symex import ENGINE

        rnd = random.Random(runner.seed() * 17 + len(label_of(inst)))
        for _ in range(2):
            assign = {k: rnd.randint(0, 1) for k, _ in model.all_keys()}
            ENGINE.prefix, ENGINE.trace, ENGINE.assign = [], [], dict(assign)
            try:
                sym = harness(inst, model)
            finally:
                ENGINE.assign = {}
            ok, text, detail = replay_detail(make_payload(assign))
            res["replays"] = res.get("replays", 0) + 1
            if (sym[0] == "OK") != ok:
                res["errors"].append(f"stub divergence on {label_of(inst)}: symbolic file system -> {sym[:3]}, real directory -> {detail}")
    return res


def replay_detail(payload: dict):
    inst = payload["inst"]
    model = make_model(inst)
    assign = {tuple(k): v for k, v in payload["assign"]}
    cfg = tuple(inst["cfg"][:2]) + (tuple(inst["cfg"][2]),)
    d = tempfile.mkdtemp(prefix="c10_", dir=os.environ.get("VERIF_SCRATCH"))
    try:
        model.materialise(assign, d)
        got = scan(d, inst["mp"], cfg)
        default = scan(d, inst["mp"], (True, "glob", ()))
        view = model.concrete(assign)
        o = judge(view, inst["mp"], cfg, got, default)
    finally:
        shutil.rmtree(d, ignore_errors=True)
    ok = o[0] == "OK"
    return ok, f"project {sorted(view[0])} with import lines {view[1]}, module_path={inst['mp']}, exclude_external_libraries={cfg[0]}, {cfg[1]} external exclusions {cfg[2]}: " + ("as specified" if ok else f"expected {o[1]}, got {o[2]}"), {"outcome": [str(x)[:300] for x in o]}


def replay(payload: dict):
    ok, text, _ = replay_detail(payload)
    return ok, text


def run(tier: str, only: str | None = None) -> int:
    rep = runner.Report(PROP, tier)
    items = instances(tier)
    if only:
        items = [i for i in items if only in label_of(i)]
    rep.bounds = {
        "project": sorted(CANDS),
        "candidate_lines": LINES,
        "configurations": [[c[0], c[1], list(c[2])] for c in CONFIGS],
        "module_paths": ["r", "r/sub"],
        "path_cap_per_instance": CAPS[tier],
    }
    rep.assumptions = [
        "SymFS stub (every model materialised as a real directory and scanned by the unpatched entry point); the tree itself is fixed, the import lines are symbolic",
        "internal = scanned modules at or below module_path and the ancestors of module_path; everything else named by an import is external (incl. r.subx when module_path is r/sub)",
        "every line bit of an opened file is read when its text is assembled (exhaustive over line subsets; degenerate in that dimension)",
    ]
    rep.stubs = ["SymFS"]
    runner.run_pool(work, items, rep, chunksize=1)
    return runner.finish(rep)
