"""C11 - regex, partial-name and batched specifications equal their expansions.

Pairs / tuples of real rules on ONE symbolic import relation; each obligation is one z3 query over the
decision-tree summaries:  compact == expansion,  no-match => always ImpossibleMatch,  batch == conjunction.
"""

from __future__ import annotations

import itertools
import re
import warnings

import z3

from vf.engine import runner
from vf.engine.rulesym import RuleLab, solver, solver_delta
from vf.engine.stubs_graph import real_architecture
from vf.universes import SHAPES, RuleSpec, build_rule, concrete, evaluate

PROP = "C11"
CAPS = {"quick": 1 << 17, "thorough": 1 << 18}


def regex_family(nodes: list[str]) -> list[str]:
    """Anchored names, prefixes, alternations and character classes over the universe's own names."""
    out = []
    for n in nodes:
        out.append(re.escape(n) + "$")  # anchored full name
        out.append(re.escape(n))  # prefix: matches n, its descendants and prefix-siblings
        if len(n) > 1:
            out.append(re.escape(n[:-1]) + ".$")  # class: last char free
            out.append(re.escape(n[:-1]) + "[a-z_]")  # class + prefix
    for a, b in itertools.combinations(nodes, 2):
        out.append(f"({re.escape(a)}|{re.escape(b)})$")
    # top-level (unparenthesised) alternations whose later alternative is a bare component occurring inside
    # other names: under re.match every alternative is anchored at the start of the name
    comps = sorted({n.split(".")[-1] for n in nodes if "." in n})
    for n in nodes[1:3]:
        for c in comps[:2]:
            out.append(f"{re.escape(n)}$|{c}")
            out.append(f"{c}|{re.escape(n)}")
    out.append(r".*\..*\.")  # depth >= 3
    out.append(r"[^.]+$")  # roots only
    out.append(r"nomatch_zz")  # matches nothing
    out.append(r".*\.nomatch$")
    seen, uniq = set(), []
    for r in out:
        if r not in seen:
            seen.add(r)
            uniq.append(r)
    return uniq


def glob(p: str, s: str) -> bool:
    """Documented meaning of a partial name, stated independently of the library's translation: the literal text
    matched in full; one leading * allows any prefix, one trailing * any suffix."""
    if p == "*":
        return True
    lead = p.startswith("*")
    trail = p.endswith("*") and len(p) >= 2
    text = p[(1 if lead else 0) : (len(p) - 1 if trail else len(p))]
    if lead and trail:
        return text in s
    if lead:
        return s.endswith(text)
    if trail:
        return s.startswith(text)
    return s == text


def partial_family(nodes: list[str]) -> list[str]:
    out = []
    for n in nodes:
        last = n.split(".")[-1]
        out += [n, "*" + last, n + "*", "*" + last + "*", "*." + last, n + ".*"]
    out += ["*zz_nomatch", "*"]
    seen, uniq = set(), []
    for r in out:
        if r not in seen:
            seen.add(r)
            uniq.append(r)
    return uniq


def instances(tier: str) -> list[dict]:
    out = []
    trees = [("T4", "neutral"), ("T4", "adv")] if tier == "quick" else [("T4", "neutral"), ("T4", "adv"), ("T5a", "neutral"), ("T5b", "adv"), ("T5c", "neutral"), ("T5d", "neutral")]
    for tree, naming in trees:
        nodes = concrete(tree, naming)
        fam = regex_family(nodes)
        if tier == "quick":
            fam = fam[:: 2] + [r for r in fam if "|" in r and "(" not in r][:4] + fam[-4:]
        others = [n for n in nodes if "." in n] if tier == "quick" else nodes
        for rx in fam:
            for other in others[: (2 if tier == "quick" else 3)]:
                out.append({"part": "regex", "tree": tree, "naming": naming, "rx": rx, "other": other})
        for pm in partial_family(nodes)[:: (3 if tier == "quick" else 1)]:
            out.append({"part": "partial", "tree": tree, "naming": naming, "pm": pm, "other": others[0]})
        # lists of partial names (one filter per name: each must match something)
        pf = partial_family(nodes)
        lists = [(pf[1], pf[6]), (pf[6], "*zz_nomatch"), ("*zz_nomatch", pf[1]), (pf[2], pf[7], pf[11])] if len(pf) > 11 else [(pf[1], "*zz_nomatch")]
        for pl in lists[: (3 if tier == "quick" else 4)]:
            out.append({"part": "partial-list", "tree": tree, "naming": naming, "pms": list(pl), "other": others[0]})
        # lists in which every module matched by one name is also matched by another name of the list (in both
        # orders): each name still matches something, so the rule has the verdict of the union, never a no-match error
        leaf = [n for n in nodes if "." in n][0]
        last = leaf.split(".")[-1]
        overl = [("*", leaf), (leaf, "*"), (nodes[0] + "*", "*" + last), ("*" + last, nodes[0] + "*"), ("*" + last + "*", leaf, "*." + last)]
        for pl in overl[: (4 if tier == "quick" else 5)]:
            out.append({"part": "partial-list", "tree": tree, "naming": naming, "pms": list(pl), "other": others[-1]})
        # batches incl. related modules
        cands = nodes if tier == "thorough" else [n for n in nodes if "." in n]
        for k in (2, 3):
            for S in itertools.combinations(nodes, k):
                for o in cands[: (1 if tier == "quick" else 2)]:
                    for sk in ("named", "sub"):
                        if tier == "quick" and (k == 3 and sk == "sub"):
                            continue
                        out.append({"part": "batch-subjects", "tree": tree, "naming": naming, "sk": sk, "S": list(S), "ok": "named", "O": [o]})
            for O in itertools.combinations(nodes, k):
                for s in cands[: (1 if tier == "quick" else 2)]:
                    out.append({"part": "batch-objects", "tree": tree, "naming": naming, "sk": "named", "S": [s], "ok": "named" if k == 2 else "sub", "O": list(O)})
    # regexes WRITTEN LIKE A MODULE NAME (unescaped dots, with or without anchors) on a universe holding a look-alike
    # module: 'a.x.y$' matches a.x.y and a.x_y - a regex means what re.match says, never 'the module of that name'
    lk = concrete("T4k", "adv")
    for n in [m for m in lk if "." in m]:
        for rx in (n + "$", "^" + n + "$", n, "^" + n):
            for other in (lk[0], lk[3]):
                if rx != n or other == lk[0]:
                    out.append({"part": "regex", "tree": "T4k", "naming": "adv", "rx": rx, "other": other})
        # the SAME text on both sides, once as a regex and once as a module name (what a regex matches and what a name
        # stands for are different things even when they are spelt alike)
        out.append({"part": "regex", "tree": "T4k", "naming": "adv", "rx": n, "other": n})
    # object / subject batches holding a module together with one of its own sub modules (every tier)
    nested = concrete("T4n", "neutral")  # p; p.a (p.a.x); p.b
    pa, pax, pb = nested[1], nested[2], nested[3]
    for kinds in (("named", "named"), ("named", "sub"), ("sub", "named")):
        out.append({"part": "batch-objects", "tree": "T4n", "naming": "neutral", "sk": kinds[0], "S": [pb if kinds[0] == "named" else nested[0]], "ok": kinds[1], "O": [pa, pax] if kinds[1] == "named" else [nested[0], pa]})
        out.append({"part": "batch-subjects", "tree": "T4n", "naming": "neutral", "sk": kinds[1], "S": [pa, pax] if kinds[1] == "named" else [nested[0], pa], "ok": "named", "O": [pb]})
    # the same regex rule on a SEQUENCE of architectures (each discarded before the next is built)
    for rx in (r"p\.(a|b)$", r"p\.[ab]", r".*\.c"):
        for verb in ("should_not", "should_only"):
            out.append({"part": "sequence", "tree": "-", "naming": "-", "rx": rx, "verb": verb})
    out.extend(big_instances(tier))
    for i in out:
        i["cap"] = CAPS[tier]
    return out


def big_instances(tier: str) -> list[dict]:
    """Seeded larger universes: random forests of 8-12 modules (names mixing neutral and prefix-sibling components),
    a concrete random import relation with a window of 10-11 symbolic pairs around the modules involved; a regex /
    partial name / batch drawn from the universe's own names (batches of 2-3 incl. related modules)."""
    import random

    from vf.universes import random_forest, random_window, related

    rnd = random.Random(runner.seed() * 1000003 + 11)
    out = []
    n_inst = 60 if tier == "quick" else 900
    while len(out) < n_inst:
        nodes = random_forest(rnd, rnd.choice((8, 9, 10, 12)), max_depth=rnd.choice((3, 4)), roots=rnd.choice((1, 2, 3)))
        kind = rnd.choice(("regex", "regex", "partial", "batch-subjects", "batch-objects"))
        inst = {"tree": f"R{len(nodes)}#{len(out)}", "naming": "mixed", "nodes": nodes}
        if kind == "regex":
            rx = rnd.choice(regex_family(nodes)[:-4])
            matched = [n for n in nodes if re.match(rx, n)]
            others = [n for n in nodes if not any(related(n, m) for m in matched)] or nodes
            inst.update({"part": "regex", "rx": rx, "other": rnd.choice(others)})
            focus = matched[:3] + [inst["other"]]
        elif kind == "partial":
            pm = rnd.choice(partial_family(nodes)[:-2])
            inst.update({"part": "partial", "pm": pm, "other": rnd.choice(nodes)})
            focus = [inst["other"]]
        elif kind == "batch-subjects":
            S = rnd.sample(nodes, rnd.choice((2, 3)))
            inst.update({"part": "batch-subjects", "sk": rnd.choice(("named", "sub")), "S": sorted(S), "ok": "named", "O": [rnd.choice(nodes)]})
            focus = S + inst["O"]
        else:
            O = rnd.sample(nodes, rnd.choice((2, 3)))
            inst.update({"part": "batch-objects", "sk": "named", "S": [rnd.choice(nodes)], "ok": rnd.choice(("named", "sub")), "O": sorted(O)})
            focus = O + inst["S"]
        win, bg = random_window(rnd, nodes, rnd.choice((10, 11)), density=rnd.choice((0.03, 0.1, 0.2)), focus=focus)
        inst.update({"window": [list(p) for p in win], "background": [list(p) for p in bg]})
        out.append(inst)
    return out


SEQ_MODS = ["p.a", "p.b", "p.c"]
SEQ_EDGES = [("p.a", "p.c"), ("p.b", "p.c"), ("p.c", "p.a"), ("p.b", "p.a")]


def sequence_outcome(rx: str, verb: str, sel):
    """Three architectures built one after the other (the previous one is dropped first); module presence and
    imports are chosen per architecture; on each the regex rule must equal the rule naming the matching modules."""
    import gc
    import re as _re

    from vf.engine.stubs_graph import real_architecture

    # all decisions are taken before any stateful code runs, so that a history-dependent implementation cannot
    # desynchronise the re-execution of the explorer
    chosen = {(i, m): sel(("mod", i, m)) for i in range(3) for m in SEQ_MODS}
    for i in range(3):
        mods = ["p"] + [m for m in SEQ_MODS if chosen[(i, m)]]
        edges = [(x, y) for x, y in SEQ_EDGES if x in mods and y in mods and sel(("edge", i, x, y))]
        ev = real_architecture(mods, edges)
        matching = tuple(m for m in mods if _re.match(rx, m))
        compact = RuleSpec(verb, "import", False, "regex", (rx,), "named", ("p",))
        got = evaluate(build_rule(compact), ev, with_message=False)
        if matching:
            want = evaluate(build_rule(RuleSpec(verb, "import", False, "named", matching, "named", ("p",)), single_as_list=True), ev, with_message=False)
        else:
            want = ("ERROR", "ImpossibleMatch")
        del ev
        gc.collect()
        if got != want:
            return ("MISMATCH", f"architecture #{i + 1} {mods} {edges}: expansion {list(matching)} gives {want}", f"{got}")
    return ("OK",)


def work_sequence(inst) -> dict:
    from vf.engine.mm import check_no_mismatch
    from vf.engine.symex import ENGINE

    rx, verb = inst["rx"], inst["verb"]
    keys = [(("mod", i, m), 2) for i in range(3) for m in SEQ_MODS]

    def fn():
        return sequence_outcome(rx, verb, lambda k: ENGINE.branch(k) if k[0] == "mod" else 1)

    def make_payload(assign):
        return {"kind": "sequence", "rx": rx, "verb": verb, "assign": [[list(k), v] for k, v in sorted(assign.items(), key=str)]}

    return check_no_mismatch(label_of(inst), fn, 1 << 12, make_payload, lambda p: replay_detail(p), all_keys=keys, degenerate=True, sample={"regex": rx})


def label_of(i: dict) -> str:
    if i["part"] == "sequence":
        return f"sequence of architectures: regex {i['rx']} {i['verb']} import p"
    return f"{i['tree']}/{i['naming']} {i['part']} " + " ".join(f"{k}={i[k]}" for k in ("rx", "pm", "pms", "other", "sk", "S", "ok", "O") if k in i)


def work(inst: dict) -> dict:
    warnings.simplefilter("ignore")
    warnings.showwarning = lambda *a, **k: None
    if inst["part"] == "sequence":
        return work_sequence(inst)
    nodes = inst["nodes"] if "nodes" in inst else concrete(inst["tree"], inst["naming"])
    label = label_of(inst)
    before = solver().stats()
    if "window" in inst:
        lab = RuleLab(nodes, inst["cap"], with_message=False, window=[tuple(p) for p in inst["window"]], background=[tuple(p) for p in inst["background"]])
    else:
        lab = RuleLab(nodes, inst["cap"], with_message=False)
    arch = lab.arch
    res = {"label": label, "violations": [], "errors": [], "replays": 0}
    checked = 0

    def cex(kind, specs, model, extra=None):
        edges = arch.model_edges(model)
        payload = {"kind": kind, "nodes": nodes, "specs": [s.as_json() for s in specs], "edges": [list(e) for e in edges], "label": label}
        payload.update(extra or {})
        ok, text, detail = replay_detail(payload)
        res["replays"] += 1
        if ok:
            res["errors"].append(f"non-reproducing counterexample {kind} {label} edges={edges}")
        else:
            payload["observed"] = detail
            payload["signature"] = {"kind": kind, "specs": payload["specs"], "tree": inst["tree"], "naming": inst["naming"]}
            res["violations"].append(payload)

    def same(compact, expanded, kind):
        nonlocal checked
        a, b = lab.summary(compact), lab.summary(expanded)
        if a is None or b is None:
            return
        bad = z3.Or(lab.passes(a) != lab.passes(b), lab.fails(a) != lab.fails(b))
        st, model = solver().check(bad)
        checked += 1
        if st == "unknown":
            res["errors"].append(f"solver unknown {label}")
        elif st == "sat":
            cex(kind, [compact, expanded], model)

    def always_nomatch(compact):
        nonlocal checked
        a = lab.summary(compact)
        if a is None:
            return
        bad = z3.Not(a.formula(lambda o: o == ("ERROR", "ImpossibleMatch"), arch.pool))
        st, model = solver().check(bad)
        checked += 1
        if st == "unknown":
            res["errors"].append(f"solver unknown {label}")
        elif st == "sat":
            cex("nomatch", [compact], model)

    part = inst["part"]
    if part in ("regex", "partial"):
        if part == "regex":
            rx = inst["rx"]
            kind = "regex"
            compact_kind, compact_arg = "regex", (rx,)
        else:
            from pytestarch.utils.partial_match_to_regex_converter import convert_partial_match_to_regex

            rx = convert_partial_match_to_regex(inst["pm"])
            kind = "partial"
            compact_kind, compact_arg = "partial", (inst["pm"],)
        # expansion: by re.match for a regex; for a partial name by its documented glob meaning (NOT by the library's
        # own translation, which is what is being checked)
        matched = tuple(n for n in nodes if (re.match(rx, n) if part == "regex" else glob(inst["pm"], n)))
        other = inst["other"]
        for verb, direction, exc in SHAPES:
            for side in ("subject", "object"):
                if side == "subject":
                    compact = RuleSpec(verb, direction, exc, compact_kind, compact_arg, "named", (other,))
                    expanded = RuleSpec(verb, direction, exc, "named", matched, "named", (other,))
                else:
                    compact = RuleSpec(verb, direction, exc, "named", (other,), compact_kind, compact_arg)
                    expanded = RuleSpec(verb, direction, exc, "named", (other,), "named", matched)
                if not matched:
                    always_nomatch(compact)
                elif part == "partial":
                    # the deprecated partial-name form equals its regex translation (and hence the expansion)
                    rxspec = RuleSpec(verb, direction, exc, "regex", (rx,), "named", (other,)) if side == "subject" else RuleSpec(verb, direction, exc, "named", (other,), "regex", (rx,))
                    same(compact, rxspec, "partial-vs-regex")
                    same(compact, expanded, "partial-vs-expansion")
                else:
                    same(compact, expanded, "regex-vs-expansion")
    elif part == "partial-list":
        from pytestarch.utils.partial_match_to_regex_converter import convert_partial_match_to_regex

        pms = tuple(inst["pms"])
        rxs = tuple(convert_partial_match_to_regex(pm) for pm in pms)
        per_name = [tuple(n for n in nodes if glob(pm, n)) for pm in pms]
        union = tuple(n for n in nodes if any(n in m for m in per_name))
        other = inst["other"]
        for verb, direction, exc in SHAPES:
            for side in ("subject", "object"):
                if side == "subject":
                    compact = RuleSpec(verb, direction, exc, "partial", pms, "named", (other,))
                    rxspec = RuleSpec(verb, direction, exc, "regexlist", rxs, "named", (other,))
                    expanded = RuleSpec(verb, direction, exc, "named", union, "named", (other,))
                else:
                    compact = RuleSpec(verb, direction, exc, "named", (other,), "partial", pms)
                    rxspec = RuleSpec(verb, direction, exc, "named", (other,), "regexlist", rxs)
                    expanded = RuleSpec(verb, direction, exc, "named", (other,), "named", union)
                if not all(per_name):
                    # one of the listed partial names matches nothing: a no-match error, never a verdict
                    always_nomatch(compact)
                else:
                    same(compact, rxspec, "partial-list-vs-regex-list")
                    same(compact, expanded, "partial-list-vs-expansion")
    elif part == "batch-subjects":
        for verb, direction, exc in SHAPES:
            batch = RuleSpec(verb, direction, exc, inst["sk"], tuple(inst["S"]), inst["ok"], tuple(inst["O"]))
            singles = [RuleSpec(verb, direction, exc, inst["sk"], (s,), inst["ok"], tuple(inst["O"])) for s in inst["S"]]
            sb = lab.summary(batch)
            ss = [lab.summary(x) for x in singles]
            if sb is None or any(x is None for x in ss):
                continue
            bad = z3.Or(lab.passes(sb) != z3.And(*[lab.passes(x) for x in ss]), lab.errors(sb) != z3.Or(*[lab.errors(x) for x in ss]))
            st, model = solver().check(bad)
            checked += 1
            if st == "unknown":
                res["errors"].append(f"solver unknown {label}")
            elif st == "sat":
                cex("batch", [batch] + singles, model)
    elif part == "batch-objects":
        for verb in ("should", "should_not"):
            for direction in ("import", "imported"):
                batch = RuleSpec(verb, direction, False, inst["sk"], tuple(inst["S"]), inst["ok"], tuple(inst["O"]))
                singles = [RuleSpec(verb, direction, False, inst["sk"], tuple(inst["S"]), inst["ok"], (o,)) for o in inst["O"]]
                sb = lab.summary(batch)
                ss = [lab.summary(x) for x in singles]
                if sb is None or any(x is None for x in ss):
                    continue
                bad = z3.Or(lab.passes(sb) != z3.And(*[lab.passes(x) for x in ss]), lab.errors(sb) != z3.Or(*[lab.errors(x) for x in ss]))
                st, model = solver().check(bad)
                checked += 1
                if st == "unknown":
                    res["errors"].append(f"solver unknown {label}")
                elif st == "sat":
                    cex("batch", [batch] + singles, model)
    st_ = lab.stats()
    st_["replays"] += res["replays"]
    st_["errors"] = res["errors"] + st_["errors"]
    res.update(st_)
    res["over_budget"] = bool(lab.over_budget)
    res["samples"] = [{"instance": label, "obligations": checked, "paths": lab.paths}]
    res.update(solver_delta(before))
    return res


def replay_detail(payload: dict):
    warnings.simplefilter("ignore")
    if payload["kind"] == "sequence":
        assign = {tuple(k): v for k, v in payload["assign"]}
        # the explorer met this sequence after other sequences in the same process; a history-dependent
        # implementation needs such a history to misbehave, a correct one ignores it: replay after two fixed warm-ups
        o = ("OK",)
        for warm in (0, 1):
            sequence_outcome(payload["rx"], payload["verb"], lambda k, warm=warm: warm if k[0] == "mod" else 1)
            o = sequence_outcome(payload["rx"], payload["verb"], lambda k: assign.get(k, 0) if k[0] == "mod" else 1)
            if o[0] != "OK":
                break
        mods = [[m for m in SEQ_MODS if assign.get(("mod", i, m), 0)] for i in range(3)]
        return o[0] == "OK", f"regex {payload['rx']!r} {payload['verb']} import 'p' on three successive architectures with modules p + {mods}: " + ("each equals its expansion" if o[0] == "OK" else f"{o[1]}, but the regex rule gives {o[2]}"), {"outcome": [str(x)[:300] for x in o]}
    nodes = payload["nodes"]
    edges = [tuple(e) for e in payload["edges"]]
    specs = [RuleSpec.from_json(s) for s in payload["specs"]]
    outs = [evaluate(build_rule(s), real_architecture(nodes, edges), with_message=False) for s in specs]
    v = [o[0] for o in outs]
    kind = payload["kind"]
    if kind == "nomatch":
        ok = outs[0] == ("ERROR", "ImpossibleMatch")
    elif kind == "batch":
        if "ERROR" in v:
            ok = (v[0] == "ERROR") == ("ERROR" in v[1:])
        else:
            ok = (v[0] == "PASS") == all(x == "PASS" for x in v[1:])
    else:
        ok = v[0] == v[1]
    text = f"{kind} on modules {nodes} with imports {edges}: " + "; ".join(f"[{s.label()}] -> {o}" for s, o in zip(specs, outs))
    return ok, text, {"outcomes": [list(o) for o in outs]}


def replay(payload: dict):
    ok, text, _ = replay_detail(payload)
    return ok, text


def run(tier: str, only: str | None = None) -> int:
    rep = runner.Report(PROP, tier)
    items = instances(tier)
    if only:
        items = [i for i in items if only in label_of(i)]
    rep.bounds = {
        "trees": sorted({i["tree"].split("#")[0] for i in items}),
        "seeded_larger_universes": f"{sum(1 for i in items if 'window' in i)} random forests of 8-12 modules, concrete background relation, 10-11 symbolic pairs each (VERIF_SEED)",
        "namings": sorted({i["naming"] for i in items}),
        "path_cap_per_summary": CAPS[tier],
        "regex_family": "regexes written like a module name (unescaped dots, optional ^ / $) on a universe with a look-alike module (a.x.y / a.x_y); anchored names, prefixes, last-char classes, two-name alternations (parenthesised, and top-level with a bare component as an alternative), depth and root patterns, two never-matching patterns; on subject or object side; all 12 shapes",
        "partial_family": "name, *last, name*, *last*, *.last, never-matching, bare *",
        "batches": "2-3 subjects (named / sub modules of, related modules included) x all shapes; 2-3 objects x plain should / should_not",
    }
    rep.assumptions = ["expansion of a regex = all modules whose name re.match()es it (documented meaning), computed on the concrete names by the harness", "SymDiGraph stub"]
    rep.stubs = ["SymDiGraph"]
    runner.run_pool(work, items, rep, chunksize=2)
    return runner.finish(rep)
