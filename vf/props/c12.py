"""C12 - rule algebra: duality, negation, decomposition, alias and monotonicity laws.

All summaries of one work item share the same symbolic import relation; every law is one z3 query
'exists e. lhs(e) != rhs(e)' over two or three decision-tree summaries of the real code.  No reference
semantics is involved, so related (ancestor / descendant / identical) subjects and objects are in scope.
"""

from __future__ import annotations

import itertools

import z3

from vf.engine import runner
from vf.engine.rulesym import RuleLab, solver, solver_delta
from vf.engine.stubs_graph import real_architecture
from vf.universes import RuleSpec, build_rule, concrete, evaluate, related

PROP = "C12"
CAPS = {"quick": 1 << 17, "thorough": 1 << 18}


def instances(tier: str) -> list[dict]:
    out = []

    def add(tree, naming, kinds=("named", "sub"), batches=False, skip_root=False):
        nodes = concrete(tree, naming)
        if skip_root:
            nodes = [n for n in nodes if "." in n]
        for s in nodes:
            for o in nodes:
                for sk in kinds:
                    for ok in kinds:
                        out.append({"tree": tree, "naming": naming, "sk": sk, "S": [s], "ok": ok, "O": [o]})
        if batches:
            for S in itertools.combinations(nodes, 2):
                for o in nodes:
                    out.append({"tree": tree, "naming": naming, "sk": "named", "S": list(S), "ok": "named", "O": [o]})

    def add_cover(tree, naming, kinds=("named", "sub"), items=None, drop=4, n_windows=4):
        """Quick-tier stand-in for a tree whose full relation is too large: n_windows windows per instance, each leaving
        out a different (disjoint) set of `drop` ordered pairs, which are absent.  Every scenario that needs up to
        n_windows - 1 particular imports (all others absent or arbitrary inside the window) lies inside one of them."""
        import random

        nodes = concrete(tree, naming)
        pairs = [(x, y) for x in nodes for y in nodes if x != y and not (y.startswith(x + ".") and "." not in y[len(x) + 1 :])]
        rnd = random.Random(runner.seed() * 13 + len(tree))
        base = []
        if items is None:
            for s_ in nodes:
                for o_ in nodes:
                    for sk in kinds:
                        for ok in kinds:
                            base.append({"tree": tree, "naming": naming, "sk": sk, "S": [s_], "ok": ok, "O": [o_]})
        else:
            base = items
        for b in base:
            order = list(pairs)
            rnd.shuffle(order)
            for w in range(n_windows):
                dropped = set(order[w * drop : (w + 1) * drop])
                out.append(dict(b, nodes=nodes, window=[list(p) for p in pairs if p not in dropped], background=[], tree=f"{tree}~w{w}"))

    if tier == "quick":
        add("T4", "neutral", batches=True)
        add("T4", "adv", batches=True)
        add("T5b", "neutral", kinds=("named",), skip_root=True)
        add_cover("T5e", "neutral", kinds=("named",))
        add("T4r", "neutral")
        # a 'sub modules of P' subject whose parent node itself imports a root that sorts before P's children
        f_items = []
        for o in ("Q", "L"):
            for sk in ("named", "sub"):
                nodes = concrete("T5f", "neutral")
                f_items.append({"tree": "T5f", "naming": "neutral", "sk": sk, "S": [nodes[1]], "ok": "named", "O": [nodes[4] if o == "Q" else nodes[0]]})
        add_cover("T5f", "neutral", items=f_items)
    else:
        for t in ("T4", "T4r", "T5a", "T5b", "T5c", "T5d", "T5e", "T5f"):
            add(t, "neutral", batches=True)
        add("T5a", "adv")
        add("T5b", "adv")
    out.extend(big_instances(tier))
    out.extend(built_instances(tier))
    for i in out:
        i["cap"] = CAPS[tier]
    # heavy items (root module involved: every variable is inspected) first, for better pool balance
    out.sort(key=lambda i: -sum(1 for n in i["S"] + i["O"] if "." not in n))
    return out


def big_instances(tier: str) -> list[dict]:
    """Seeded larger universes (random forests of 8-12 modules, mixed neutral / prefix-sibling names): a concrete random
    import relation with a window of 10-11 symbolic pairs, two thirds of them touching the subject / object modules or
    their relatives; subjects and objects drawn from ALL modules (identical, ancestor, descendant, unrelated), either
    filter kind, single or two-subject batches."""
    import random

    from vf.universes import random_forest, random_window

    rnd = random.Random(runner.seed() * 1000003 + 12)
    out = []
    n_inst = 60 if tier == "quick" else 1200
    while len(out) < n_inst:
        nodes = random_forest(rnd, rnd.choice((8, 9, 10, 12)), max_depth=rnd.choice((3, 4)), roots=rnd.choice((1, 2, 3)))
        batch = rnd.random() < 0.3
        S = rnd.sample(nodes, 2) if batch else [rnd.choice(nodes)]
        near = [n for n in nodes if any(related(n, s) for s in S)]
        O = [rnd.choice(near if rnd.random() < 0.4 else nodes)]
        sk, ok = ("named", "named") if batch else (rnd.choice(("named", "sub")), rnd.choice(("named", "sub")))
        win, bg = random_window(rnd, nodes, rnd.choice((10, 11)), density=rnd.choice((0.03, 0.1, 0.2)), focus=S + O)
        out.append({"tree": f"R{len(nodes)}#{len(out)}", "naming": "mixed", "nodes": nodes, "window": [list(p) for p in win], "background": [list(p) for p in bg], "sk": sk, "S": sorted(S), "ok": ok, "O": O})
    return out


# --- the laws on architectures BUILT by the real constructor (with and without level_limit) ---------------------------
# The symbolic relation of the other parts lives in a stub DiGraph whose import edges join two different nodes.  What
# the real constructor makes of an import LIST is outside that model: with a level limit, importer and importee may
# flatten onto one module, imports may name unknown modules, one pair may be listed twice.  Here the presence of each
# of nine candidate imports is a z3 atom, the real NetworkxGraph(all_modules, imports, level_limit) is built on every
# path and every law is evaluated on it for one subject against every object (identical / ancestor / descendant /
# unrelated); the leaf is OK or names the broken law.  (Construction reads every presence bit: an exhaustive walk,
# marked degenerate; the query 'exists presence bits. some law is broken' is still the deciding step.)

BUILT_MODULES = ["r", "r.a", "r.a.x", "r.a.y", "r.b", "r.b.z", "q"]
BUILT_IMPORTS = [("r.a.x", "r.a.y"), ("r.a.y", "r.a.x"), ("r.a.x", "r.b.z"), ("r.b.z", "r.a.y"), ("r.b.z", "q"), ("q", "r.a.x"), ("r.a.x", "r.a"), ("r.b", "r.a.x"), ("r.a.x", "r.nowhere")]


def built_arch(level_limit, present):
    from pytestarch.eval_structure.evaluable_graph import EvaluableArchitectureGraph
    from pytestarch.eval_structure.networkxgraph import NetworkxGraph
    from pytestarch.eval_structure_generation.file_import.import_types import AbsoluteImport

    return EvaluableArchitectureGraph(NetworkxGraph(list(BUILT_MODULES), [AbsoluteImport(x, y) for (x, y), on in zip(BUILT_IMPORTS, present) if on], level_limit))


def built_outcome(inst, present):
    ev = built_arch(inst["level_limit"], present)
    objs = sorted(ev.modules)
    s = inst["subject"]
    if s not in objs:
        return ("OK", 0)
    n = 0
    for o in objs:
        for sk, ok in (("named", "named"), ("sub", "named"), ("named", "sub")):
            item = {"sk": sk, "S": [s], "ok": ok, "O": [o]}
            for law, comb, specs in laws(item):
                outs = [evaluate(build_rule(sp), ev, with_message=False) for sp in specs]
                n += 1
                if not _law_holds(comb, [x[0] for x in outs]):
                    return ("MISMATCH", law, tuple(sp.label() for sp in specs), tuple(x[0] for x in outs))
    return ("OK", n)


def _law_holds(comb, v) -> bool:
    anyerr = "ERROR" in v
    if comb == "eq":
        return v[0] == v[1]
    if comb == "neg":
        return (v[0] == "ERROR") == (v[1] == "ERROR") and (anyerr or (v[0] == "PASS") != (v[1] == "PASS"))
    if comb == "and":
        return ((v[0] == "ERROR") == (v[1] == "ERROR" or v[2] == "ERROR")) and (anyerr or ((v[0] == "PASS") == (v[1] == "PASS" and v[2] == "PASS")))
    return True


def built_instances(tier: str) -> list[dict]:
    out = []
    for limit in (1, 2, None):
        for s in (["r", "r.a", "r.b", "q"] if limit == 1 else BUILT_MODULES):
            out.append({"part": "built", "level_limit": limit, "subject": s, "tree": f"built/k={limit}", "naming": "-", "sk": "named", "S": [s], "ok": "*", "O": ["*"]})
    return out


def work_built(inst: dict) -> dict:
    from vf.engine.mm import check_no_mismatch
    from vf.engine.symex import ENGINE

    keys = [(("imp", i), 2) for i in range(len(BUILT_IMPORTS))]
    label = f"{inst['tree']}/-: laws for subject {inst['subject']} on the graph built from a symbolic import list"

    def fn():
        return built_outcome(inst, [ENGINE.branch(("imp", i)) for i in range(len(BUILT_IMPORTS))])

    def make_payload(assign):
        return {"kind": "built", "level_limit": inst["level_limit"], "subject": inst["subject"], "present": [assign.get(("imp", i), 0) for i in range(len(BUILT_IMPORTS))]}

    return check_no_mismatch(label, fn, 1 << 12, make_payload, replay_detail, all_keys=keys, degenerate=True, sample={"modules": BUILT_MODULES, "candidate_imports": BUILT_IMPORTS})


def _spec(inst, verb, direction, exc, swap=False, anything=False):
    if swap:
        return RuleSpec(verb, direction, exc, inst["ok"], tuple(inst["O"]), inst["sk"], tuple(inst["S"]))
    return RuleSpec(verb, direction, exc, inst["sk"], tuple(inst["S"]), inst["ok"], tuple(inst["O"]), anything)


def laws(inst) -> list[tuple[str, str, list[RuleSpec]]]:
    """(law id, combinator, specs).  combinator: 'eq' p0==p1 | 'neg' p0 == not p1 | 'and' p0 == p1 and p2 |
    'same' identical outcomes incl. message."""
    out = []
    single = len(inst["S"]) == 1 and len(inst["O"]) == 1
    for verb in ("should", "should_not"):
        out.append((f"duality/{verb}/import", "eq", [_spec(inst, verb, "import", False), _spec(inst, verb, "imported", False, swap=True)]))
        if not single:
            # the batch on the OBJECT side of the import-direction rule: 'O should import [S...]' vs '[S...] should be
            # imported by O'
            out.append((f"duality/{verb}/imported", "eq", [_spec(inst, verb, "imported", False), _spec(inst, verb, "import", False, swap=True)]))
    for d in ("import", "imported"):
        if single:
            out.append((f"negation/{d}", "neg", [_spec(inst, "should", d, False), _spec(inst, "should_not", d, False)]))
            out.append((f"negation-except/{d}", "neg", [_spec(inst, "should", d, True), _spec(inst, "should_not", d, True)]))
        out.append((f"decomposition/{d}", "and", [_spec(inst, "should_only", d, False), _spec(inst, "should", d, False), _spec(inst, "should_not", d, True)]))
        out.append((f"decomposition-except/{d}", "and", [_spec(inst, "should_only", d, True), _spec(inst, "should", d, True), _spec(inst, "should_not", d, False)]))
    return out


def alias_laws(inst):
    out = []
    if len(inst["S"]) > 1 and inst["sk"] == "named":
        # batched alias: 'S should not import anything' == 'S should not import modules except S'
        S = tuple(inst["S"])
        # the law is about verdicts; messages are compared as well when the batch members are unrelated (a batch
        # holding a module AND its own descendant is de-duplicated by the alias but not by the explicit form, so the
        # explicit form words its report differently - C03's reference does not cover subject / object overlap)
        comb = "eq" if any(related(a, b) for a, b in itertools.combinations(S, 2)) else "same"
        for d in ("import", "imported"):
            out.append((f"alias-batch/{d}", comb, [RuleSpec("should_not", d, False, "named", S, "named", (), True), RuleSpec("should_not", d, True, "named", S, "named", S)]))
    if inst["S"] == inst["O"] and inst["sk"] == inst["ok"]:
        for d in ("import", "imported"):
            out.append((f"alias/{d}", "same", [_spec(inst, "should_not", d, False, anything=True), _spec(inst, "should_not", d, True)]))
    return out


def work(inst: dict) -> dict:
    if inst.get("part") == "built":
        return work_built(inst)
    nodes = inst["nodes"] if "nodes" in inst else concrete(inst["tree"], inst["naming"])
    label = f"{inst['tree']}/{inst['naming']}: {inst['sk']}{inst['S']} vs {inst['ok']}{inst['O']}"
    before = solver().stats()
    if "window" in inst:
        lab = RuleLab(nodes, inst["cap"], with_message=True, window=[tuple(p) for p in inst["window"]], background=[tuple(p) for p in inst["background"]])
    else:
        lab = RuleLab(nodes, inst["cap"], with_message=True)
    arch = lab.arch
    res = {"label": label, "violations": [], "errors": [], "replays": 0, "samples": []}
    checked = 0

    def report(law, specs, model, what):
        edges = arch.model_edges(model)
        payload = {"kind": "law", "law": law, "nodes": nodes, "specs": [s.as_json() for s in specs], "edges": [list(e) for e in edges], "label": label, "what": what}
        ok, text, detail = replay_detail(payload)
        res["replays"] += 1
        if ok:
            res["errors"].append(f"non-reproducing counterexample for {law} on {label}: edges={edges}")
        else:
            payload["observed"] = detail
            payload["signature"] = {"law": law, "inst": {k: inst[k] for k in ("tree", "naming", "sk", "S", "ok", "O")}}
            res["violations"].append(payload)

    for law, comb, specs in laws(inst) + alias_laws(inst):
        summs = [lab.summary(s) for s in specs]
        if any(s is None for s in summs):
            continue
        p = [lab.passes(s) for s in summs]
        err = [lab.errors(s) for s in summs]
        if comb == "eq":
            bad = z3.Or(p[0] != p[1], err[0] != err[1])
        elif comb == "neg":
            bad = z3.Or(z3.And(z3.Not(err[0]), z3.Not(err[1]), p[0] == p[1]), err[0] != err[1])
        elif comb == "and":
            bad = z3.Or(z3.And(z3.Not(err[0]), z3.Not(err[1]), z3.Not(err[2]), p[0] != z3.And(p[1], p[2])), err[0] != z3.Or(err[1], err[2]))
        elif comb == "same":
            outs = set(summs[0].outcomes()) | set(summs[1].outcomes())
            bad = z3.Or(*[summs[0].formula(lambda o, t=t: o == t, arch.pool) != summs[1].formula(lambda o, t=t: o == t, arch.pool) for t in outs])
        st, model = solver().check(bad)
        checked += 1
        if st == "unknown":
            res["errors"].append(f"solver unknown: {law} {label}")
        elif st == "sat":
            report(law, specs, model, comb)

    # monotonicity: adding an import between unrelated modules
    unrelated_vars = [(x, y) for (x, y) in arch.pairs if not related(x, y)]
    for d in ("import", "imported"):
        for exc in (False, True):
            for verb in ("should", "should_not"):
                spec = _spec(inst, verb, d, exc)
                summ = lab.summary(spec)
                if summ is None:
                    continue
                f = lab.passes(summ) if verb == "should" else lab.fails(summ)
                # one query for all variables: exists e, v. f(e) and not f(e[v:=true])
                bads = []
                for (x, y) in unrelated_vars:
                    v = arch.var(x, y)
                    bads.append(z3.And(f, z3.Not(z3.substitute(f, (v, z3.BoolVal(True))))))
                if not bads:
                    continue
                st, model = solver().check(z3.Or(*bads))
                checked += 1
                if st == "unknown":
                    res["errors"].append(f"solver unknown: monotonicity {spec.label()} {label}")
                elif st == "sat":
                    # find the variable
                    for (x, y), b in zip(unrelated_vars, bads):
                        if z3.is_true(model.eval(b, model_completion=True)):
                            edges = arch.model_edges(model)
                            payload = {"kind": "mono", "law": f"monotonicity/{verb}/{d}/{'except' if exc else 'plain'}", "nodes": nodes, "specs": [spec.as_json()], "edges": [list(e) for e in edges], "added": [x, y], "label": label}
                            ok, text, detail = replay_detail(payload)
                            res["replays"] += 1
                            if ok:
                                res["errors"].append(f"non-reproducing monotonicity counterexample {label} {spec.label()}")
                            else:
                                payload["observed"] = detail
                                payload["signature"] = {"law": payload["law"], "inst": {k: inst[k] for k in ("tree", "naming", "sk", "S", "ok", "O")}}
                                res["violations"].append(payload)
                            break
    st_ = lab.stats()
    st_["replays"] += res["replays"]
    st_["errors"] = res["errors"] + st_["errors"]
    res.update(st_)
    res["over_budget"] = bool(lab.over_budget)
    res["samples"] = [{"instance": label, "laws_checked": checked, "paths": lab.paths}]
    res.update(solver_delta(before))
    return res


def replay_detail(payload: dict):
    if payload["kind"] == "built":
        o = built_outcome({"level_limit": payload["level_limit"], "subject": payload["subject"]}, payload["present"])
        imports = [list(p) for p, on in zip(BUILT_IMPORTS, payload["present"]) if on]
        ok = o[0] == "OK"
        text = f"architecture built from modules {BUILT_MODULES}, imports {imports}, level_limit={payload['level_limit']}: " + ("all laws hold" if ok else f"law {o[1]} broken: " + "; ".join(f"[{sp}] -> {v}" for sp, v in zip(o[2], o[3])))
        return ok, text, {"outcome": [str(x)[:400] for x in o]}
    nodes = payload["nodes"]
    edges = [tuple(e) for e in payload["edges"]]
    specs = [RuleSpec.from_json(s) for s in payload["specs"]]
    outs = [evaluate(build_rule(s), real_architecture(nodes, edges), with_message=True) for s in specs]
    v = [o[0] for o in outs]
    law = payload["law"]
    if payload["kind"] == "mono":
        e2 = edges + [tuple(payload["added"])]
        o2 = evaluate(build_rule(specs[0]), real_architecture(nodes, e2), with_message=False)
        if specs[0].verb == "should":
            ok = not (v[0] == "PASS" and o2[0] != "PASS")
        else:
            ok = not (v[0] == "FAIL" and o2[0] != "FAIL")
        return ok, f"{law}: [{specs[0].label()}] on {edges} -> {v[0]}; after adding import {payload['added']} -> {o2[0]}", {"before": v[0], "after": o2[0]}
    comb = payload.get("what")
    anyerr = "ERROR" in v
    if comb == "eq":
        ok = v[0] == v[1]
    elif comb == "neg":
        ok = (v[0] == "ERROR") == (v[1] == "ERROR") and (anyerr or (v[0] == "PASS") != (v[1] == "PASS"))
    elif comb == "and":
        ok = ((v[0] == "ERROR") == (v[1] == "ERROR" or v[2] == "ERROR")) and (anyerr or ((v[0] == "PASS") == (v[1] == "PASS" and v[2] == "PASS")))
    else:
        ok = outs[0] == outs[1]
    text = f"{law} on modules {nodes} with imports {edges}: " + "; ".join(f"[{s.label()}] -> {o[0] if comb != 'same' else o}" for s, o in zip(specs, outs))
    return ok, text, {"outcomes": [list(map(str, o)) for o in outs]}


def replay(payload: dict):
    ok, text, _ = replay_detail(payload)
    return ok, text


def run(tier: str, only: str | None = None) -> int:
    rep = runner.Report(PROP, tier)
    items = instances(tier)
    if only:
        items = [i for i in items if only in f"{i['tree']}/{i['naming']}: {i['sk']}{i['S']} vs {i['ok']}{i['O']}"]
    rep.bounds = {
        "trees": sorted({i["tree"].split("#")[0] for i in items}),
        "built_architectures": f"modules {BUILT_MODULES}, nine candidate imports (incl. imports inside one flattened module, of an ancestor, of an unknown module), level_limit 1 / 2 / none, real NetworkxGraph construction per path",
        "seeded_larger_universes": f"{sum(1 for i in items if 'window' in i)} random forests of 8-12 modules, concrete background relation, 10-11 symbolic pairs each (VERIF_SEED)",
        "namings": sorted({i["naming"] for i in items}),
        "path_cap_per_summary": CAPS[tier],
        "laws": "duality (should/should_not), negation (plain/except, single S,O), decomposition (plain/except), alias (import_anything/be_imported_by_anything incl. messages), monotonicity per variable between unrelated modules (should / should_not, plain / except)",
        "subjects_objects": "every ordered pair of modules incl. identical / ancestor / descendant, both filter kinds; two-subject batches on named filters",
    }
    rep.assumptions = ["SymDiGraph stub (validated in C01/C03 runs and by replaying every model on the real stack)"]
    rep.stubs = ["SymDiGraph"]
    runner.run_pool(work, items, rep, chunksize=2)
    return runner.finish(rep)
