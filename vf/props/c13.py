"""C13 - undefined or incomplete specifications never produce a verdict.

(a) builder histories: n-ary symbolic choices over the complete Rule / LayerRule / DiagramRule vocabularies
    followed by assert_applies on a symbolic import relation; an independent specification automaton
    classifies each history; query: exists history, e. invalid(history) and outcome in {PASS, FAIL}.
    plus every single deletion / duplication / adjacent transposition of every complete call chain.
(b) complete rules with one unknown module name / never-matching regex / too-deep name on a level-limited
    graph / undefined layer: exists e. outcome is not an error.
(c) entry-point option validation: symbolic 'is this option supplied' bits.
"""

from __future__ import annotations

import itertools
import os
import shutil
import tempfile
import warnings

import z3

from vf.engine import runner
from vf.engine.histories import Sym, play
from vf.engine.rulesym import SymArch, explore_fn, solver, solver_delta
from vf.engine.stubs_graph import real_architecture
from vf.engine.symex import ENGINE, VarPool
from vf.oracles.builders import NOARG, DiagramRuleAutomaton, LayerRuleAutomaton, RuleAutomaton
from vf.universes import SHAPES, RuleSpec, build_rule, concrete, evaluate

PROP = "C13"
NODES = ["p", "p.a", "p.b"]
LEN = {"quick": 5, "thorough": 6}
CAP = 1 << 22

RULE_VOCAB = [
    Sym("modules_that"),
    Sym("are_named", "p.a"),
    Sym("are_named", ["p.a", "p.b"]),
    Sym("are_sub_modules_of", "p"),
    Sym("have_name_matching", r"p\.b"),
    Sym("have_name_containing", "*b"),
    Sym("should"),
    Sym("should_only"),
    Sym("should_not"),
    Sym("import_modules_that"),
    Sym("be_imported_by_modules_that"),
    Sym("import_modules_except_modules_that"),
    Sym("be_imported_by_modules_except_modules_that"),
    Sym("import_anything"),
    Sym("be_imported_by_anything"),
]

LAYER_VOCAB = [
    Sym("based_on", "ARCH"),
    Sym("layers_that"),
    Sym("are_named", "A"),
    Sym("are_named", "B"),
    Sym("are_named", ["A", "B"]),
    Sym("are_named", "Z"),
    Sym("should"),
    Sym("should_only"),
    Sym("should_not"),
    Sym("access_layers_that"),
    Sym("be_accessed_by_layers_that"),
    Sym("access_layers_except_layers_that"),
    Sym("be_accessed_by_layers_except_layers_that"),
    Sym("access_any_layer"),
    Sym("be_accessed_by_any_layer"),
]

DIAGRAM_VOCAB = [
    Sym("from_file", "good"),
    Sym("from_file", "notags"),
    Sym("from_file", "endfirst"),
    Sym("from_file", "startlast"),
    Sym("with_base_module", "p"),
    Sym("base_module_included_in_module_names"),
]

GOOD_PUML = "@startuml\n[a] --> [b]\n@enduml\n"
NOTAGS_PUML = "[a] --> [b]\n"


def _mk_arch():
    from pytestarch import LayeredArchitecture

    return LayeredArchitecture().layer("A").containing_modules(["p.a"]).layer("B").containing_modules(["p.b"])


class Family:
    def __init__(self, name: str, scratch: str | None = None):
        self.name = name
        self.scratch = scratch
        self.ev = None
        if name == "rule":
            self.vocab = RULE_VOCAB
        elif name == "layer":
            self.vocab = LAYER_VOCAB
        else:
            self.vocab = DIAGRAM_VOCAB

    def make_obj(self):
        from pytestarch import DiagramRule, LayerRule, Rule

        return {"rule": Rule, "layer": LayerRule, "diagram": DiagramRule}[self.name]()

    def make_aut(self):
        if self.name == "rule":
            return RuleAutomaton()
        if self.name == "layer":
            return LayerRuleAutomaton({"A", "B"})
        return DiagramRuleAutomaton()

    def resolve(self, a):
        if a == "EV":
            return self.ev
        if a == "ARCH":
            return _mk_arch()
        if self.name == "diagram" and a in ("good", "notags", "endfirst", "startlast"):
            return os.path.join(self.scratch, f"{a}.puml")
        return a


def classify(expects, final) -> bool:
    """True iff the specification says this history must not produce a verdict."""
    return bool(expects) or final in ("incomplete", "contradictory")


def history_outcome(fam: Family, seq_or_len, ev, prefix=()):
    fam.ev = ev
    hist, expects, final, real, _, _ = play(seq_or_len, fam.vocab, fam.make_obj, fam.make_aut, lambda obj: evaluate(obj, ev, with_message=False), fam.resolve, prefix)
    must_error = classify(expects, final)
    cls = "ERROR" if real[0] in ("RAISED", "ERROR") else real[0]
    return (must_error, cls, final if not expects else "rejected-call")


def _write_diagrams(d):
    with open(os.path.join(d, "good.puml"), "w") as f:
        f.write(GOOD_PUML)
    with open(os.path.join(d, "notags.puml"), "w") as f:
        f.write(NOTAGS_PUML)
    # both tag texts occur, but no start tag is followed by an end tag: the diagram is never closed / never opened
    with open(os.path.join(d, "endfirst.puml"), "w") as f:
        f.write("' do not forget the closing @enduml tag\n@startuml\n[a] --> [b]\n")
    with open(os.path.join(d, "startlast.puml"), "w") as f:
        f.write("[a] --> [b]\n@enduml\n' a diagram begins with @startuml\n")


# ---------------------------------------------------------------------------------------------------


def instances(tier: str) -> list[dict]:
    out = []
    L = LEN[tier]
    for fam, vocab in (("rule", RULE_VOCAB), ("layer", LAYER_VOCAB)):
        for first in range(len(vocab)):
            out.append({"part": "history", "family": fam, "first": first, "L": L})
    out.append({"part": "history", "family": "diagram", "first": None, "L": 4})
    # reuse after application: a complete chain, an application, then up to 2 (quick) / 3 more calls, then the
    # final application - the specification automaton keeps judging the configuration the calls add up to
    for fam in ("rule", "layer"):
        n = len(complete_chains(fam))
        for ci in range(0, n, 1 if tier == "thorough" else 3):
            out.append({"part": "reuse", "family": fam, "chain": ci, "L": 2 if tier == "quick" else 3})
    out.append({"part": "mutants", "family": "rule"})
    out.append({"part": "mutants", "family": "layer"})
    # unknown names
    for tree, limit in (("T5a", None), ("T5a", 1)):
        out.append({"part": "unknown", "tree": tree, "level_limit": limit})
    out.append({"part": "unknown-layer"})
    out.append({"part": "entry"})
    return out


def label_of(i) -> str:
    return " ".join(f"{k}={v}" for k, v in i.items())


def work(inst: dict) -> dict:
    warnings.simplefilter("ignore")
    warnings.showwarning = lambda *a, **k: None
    before = solver().stats()
    part = inst["part"]
    if part == "history":
        res = work_history(inst)
    elif part == "reuse":
        res = work_history(inst)
    elif part == "mutants":
        res = work_mutants(inst)
    elif part == "unknown":
        res = work_unknown(inst)
    elif part == "unknown-layer":
        res = work_unknown_layer(inst)
    else:
        res = work_entry(inst)
    res.setdefault("label", label_of(inst))
    res.update(solver_delta(before))
    return res


def _hist_of_model(fam: Family, assign: dict, L: int, prefix) -> list[Sym]:
    seq = list(prefix)
    for n in range(L):
        c = assign.get(("h", n), 0)
        if c == 0:
            break
        seq.append(fam.vocab[c - 1])
    return seq


def work_history(inst) -> dict:
    scratch = tempfile.mkdtemp(prefix="c13_", dir=os.environ.get("VERIF_SCRATCH"))
    try:
        _write_diagrams(scratch)
        fam = Family(inst["family"], scratch)
        arch = SymArch(NODES)
        L = inst["L"]
        if inst["part"] == "reuse":
            prefix = tuple(complete_chains(inst["family"])[inst["chain"]]) + (Sym("APPLY", "EV"),)
            Ls = L
        else:
            prefix = () if inst["first"] is None else (fam.vocab[inst["first"]],)
            Ls = L - len(prefix)

        def fn():
            return history_outcome(fam, Ls, arch.ev, prefix)

        summ, funcs, over = explore_fn(fn, CAP)
        res = {"functions": funcs, "variables_total": len(arch.pairs) + Ls, "errors": [], "violations": [], "replays": 0}
        if over:
            res["over_budget"] = True
            return res
        pool = arch.pool
        bad = summ.formula(lambda o: o[0] and o[1] in ("PASS", "FAIL"), pool)
        st, model = solver().check(*pool.domain, bad)
        res.update({"paths": summ.paths, "forks": summ.forks, "explore_s": summ.explore_s, "dont_care_vars": 0})
        classes: dict = {}
        for o in summ.outcomes():
            classes[str(o)] = classes.get(str(o), 0) + 1
        res["samples"] = [{"family": fam.name, "first": " . ".join(p_.show() for p_ in prefix) if prefix else None, "max_len": L, "histories_and_paths": summ.paths, "distinct_outcomes": sorted(classes)}]
        if st == "unknown":
            res["errors"].append("solver unknown")
        elif st == "sat":
            assign = pool.model_to_assign(model)
            seq = _hist_of_model(fam, assign, Ls, prefix)
            edges = arch.model_edges(model)
            payload = {"kind": "history", "family": fam.name, "history": [[s.name, s.arg] for s in seq], "nodes": NODES, "edges": [list(e) for e in edges]}
            ok, text, detail = replay_detail(payload)
            res["replays"] += 1
            if ok:
                res["errors"].append(f"non-reproducing history counterexample {text}")
            else:
                payload["observed"] = detail
                payload["signature"] = {"family": fam.name, "history": payload["history"]}
                res["violations"].append(payload)
        # reachability witness: some valid complete history yields a verdict (harness is not vacuous)
        if inst["part"] != "reuse" and (inst["first"] == 0 or inst["first"] is None):
            wit = summ.formula(lambda o: (not o[0]) and o[1] in ("PASS", "FAIL"), pool)
            stw, _ = solver().check(*pool.domain, wit)
            if stw != "sat" and (L >= 5 or fam.name == "diagram"):
                res["errors"].append(f"vacuity: no accepted history with a verdict in family {fam.name}")
        return res
    finally:
        shutil.rmtree(scratch, ignore_errors=True)


def complete_chains(family: str) -> list[list[Sym]]:
    chains = []
    if family == "rule":
        subj = [Sym("are_named", "p.a"), Sym("are_sub_modules_of", "p"), Sym("have_name_matching", r"p\.b")]
        obj = [Sym("are_named", "p.b"), Sym("are_named", ["p.a", "p.b"])]
        for s in subj:
            for v in ("should", "should_only", "should_not"):
                for it in ("import_modules_that", "be_imported_by_modules_that", "import_modules_except_modules_that", "be_imported_by_modules_except_modules_that"):
                    for o in obj:
                        chains.append([Sym("modules_that"), s, Sym(v), Sym(it), o])
            for it in ("import_anything", "be_imported_by_anything"):
                chains.append([Sym("modules_that"), s, Sym("should_not"), Sym(it)])
    else:
        for v in ("should", "should_only", "should_not"):
            for it in ("access_layers_that", "be_accessed_by_layers_that", "access_layers_except_layers_that", "be_accessed_by_layers_except_layers_that"):
                for o in (Sym("are_named", "B"), Sym("are_named", ["A", "B"])):
                    chains.append([Sym("based_on", "ARCH"), Sym("layers_that"), Sym("are_named", "A"), Sym(v), Sym(it), o])
        for it in ("access_any_layer", "be_accessed_by_any_layer"):
            chains.append([Sym("based_on", "ARCH"), Sym("layers_that"), Sym("are_named", "A"), Sym("should_not"), Sym(it)])
    return chains


def mutants(chain: list[Sym]):
    yield ("id", list(chain))
    for i in range(len(chain)):
        yield (f"del{i}", chain[:i] + chain[i + 1 :])
        yield (f"dup{i}", chain[: i + 1] + chain[i:])
    for i in range(len(chain) - 1):
        c = list(chain)
        c[i], c[i + 1] = c[i + 1], c[i]
        yield (f"swap{i}", c)


def work_mutants(inst) -> dict:
    fam = Family(inst["family"])
    arch = SymArch(NODES)
    res = {"functions": set(), "variables_total": len(arch.pairs), "errors": [], "violations": [], "replays": 0, "paths": 0, "forks": 0, "explore_s": 0.0, "samples": []}
    n_mut = 0
    seen = set()
    for chain in complete_chains(inst["family"]):
        for mname, seq in mutants(chain):
            key = tuple((s.name, str(s.arg)) for s in seq)
            if key in seen:
                continue
            seen.add(key)
            n_mut += 1

            def fn(seq=seq):
                return history_outcome(fam, seq, arch.ev)

            summ, funcs, over = explore_fn(fn, CAP, record_functions=not res["functions"])
            res["functions"] |= funcs
            res["paths"] += summ.paths
            res["forks"] += summ.forks
            res["explore_s"] += summ.explore_s
            bad = summ.formula(lambda o: o[0] and o[1] in ("PASS", "FAIL"), arch.pool)
            st, model = solver().check(bad)
            if st == "unknown":
                res["errors"].append("solver unknown")
            elif st == "sat":
                edges = arch.model_edges(model)
                payload = {"kind": "history", "family": fam.name, "history": [[s.name, s.arg] for s in seq], "nodes": NODES, "edges": [list(e) for e in edges], "mutation": mname}
                ok, text, detail = replay_detail(payload)
                res["replays"] += 1
                if ok:
                    res["errors"].append(f"non-reproducing mutant counterexample {text}")
                else:
                    payload["observed"] = detail
                    payload["signature"] = {"family": fam.name, "history": payload["history"]}
                    res["violations"].append(payload)
    res["samples"] = [{"family": fam.name, "chain_mutants": n_mut}]
    return res


UNKNOWN_NAMES = {
    None: ["pq.xx", "pq.xr.mv.deep", "xr", "pq.xr."],
    1: ["pq.xr.mv", "pq.xx"],
}


def work_unknown(inst) -> dict:
    nodes = concrete(inst["tree"], "neutral")
    limit = inst["level_limit"]
    arch = SymArch(nodes, level_limit=limit)
    present = arch.sym.nodes
    known = [n for n in present if "." in n][0]
    res = {"functions": set(), "variables_total": len(arch.pairs), "errors": [], "violations": [], "replays": 0, "paths": 0, "forks": 0, "explore_s": 0.0}
    specs = []
    for verb, direction, exc in SHAPES:
        for unk in UNKNOWN_NAMES[limit]:
            for kind in ("named", "sub"):
                specs.append(RuleSpec(verb, direction, exc, kind, (unk,), "named", (known,)))
                specs.append(RuleSpec(verb, direction, exc, "named", (known,), kind, (unk,)))
                specs.append(RuleSpec(verb, direction, exc, "named", (known, unk), "named", (present[-1],)))
        # an absent name listed next to present ones: the absent CHILD of a listed present parent (either order), an
        # absent sibling, on the object side and on the subject side
        other = present[-1]
        ghost_child, ghost_sib = known + ".ghost", known + "x"
        if limit is None:
            for batch in ((known, ghost_child), (ghost_child, known), (known, ghost_sib), (other, ghost_child)):
                if other in batch:
                    specs.append(RuleSpec(verb, direction, exc, "named", (known,), "named", batch))
                else:
                    specs.append(RuleSpec(verb, direction, exc, "named", (other,), "named", batch))
                    specs.append(RuleSpec(verb, direction, exc, "named", batch, "named", (other,)))
        specs.append(RuleSpec(verb, direction, exc, "regex", ("nomatch_zz",), "named", (known,)))
        specs.append(RuleSpec(verb, direction, exc, "named", (known,), "regex", (r".*\.nomatch$",)))
    for d in ("import", "imported"):
        for unk in UNKNOWN_NAMES[limit]:
            specs.append(RuleSpec("should_not", d, False, "named", (unk,), "named", (), True))
    for spec in specs:
        def fn(spec=spec):
            return evaluate(build_rule(spec), arch.ev, with_message=False)

        summ, funcs, over = explore_fn(fn, CAP, record_functions=not res["functions"])
        res["functions"] |= funcs
        res["paths"] += summ.paths
        res["forks"] += summ.forks
        res["explore_s"] += summ.explore_s
        bad = summ.formula(lambda o: o[0] != "ERROR", arch.pool)
        st, model = solver().check(bad)
        if st == "unknown":
            res["errors"].append("solver unknown")
        elif st == "sat":
            edges = arch.model_edges(model)
            payload = {"kind": "unknown-name", "nodes": nodes, "level_limit": limit, "spec": spec.as_json(), "edges": [list(e) for e in edges]}
            ok, text, detail = replay_detail(payload)
            res["replays"] += 1
            if ok:
                res["errors"].append(f"non-reproducing unknown-name counterexample {text}")
            else:
                payload["observed"] = detail
                payload["signature"] = {"spec": spec.as_json(), "limit": limit}
                res["violations"].append(payload)
    res["samples"] = [{"unknown_name_rules": len(specs), "level_limit": limit, "example": specs[0].label()}]
    return res


def work_unknown_layer(inst) -> dict:
    from vf.oracles.layers import LayerSpec, build_layer_rule

    nodes = concrete("T4", "neutral")
    arch = SymArch(nodes)
    layers = (("L0", "names", (nodes[1],)), ("L1", "names", (nodes[2],)))
    res = {"functions": set(), "variables_total": len(arch.pairs), "errors": [], "violations": [], "replays": 0, "paths": 0, "forks": 0, "explore_s": 0.0}
    n = 0
    for verb, direction, exc in SHAPES:
        d = "access" if direction == "import" else "accessed"
        for subj, objs in (("LX", ("L1",)), ("L0", ("LX",)), ("L0", ("L1", "LX"))):
            spec = LayerSpec(layers, verb, d, exc, subj, objs)
            n += 1

            def fn(spec=spec):
                try:
                    rule = build_layer_rule(spec)
                except Exception as e:  # noqa: BLE001
                    return ("ERROR", type(e).__name__)
                return evaluate(rule, arch.ev, with_message=False)

            summ, funcs, over = explore_fn(fn, CAP, record_functions=not res["functions"])
            res["functions"] |= funcs
            res["paths"] += summ.paths
            res["forks"] += summ.forks
            bad = summ.formula(lambda o: o[0] != "ERROR", arch.pool)
            st, model = solver().check(bad)
            if st == "sat":
                payload = {"kind": "unknown-layer", "nodes": nodes, "spec": spec.as_json(), "edges": [list(e) for e in arch.model_edges(model)]}
                ok, text, detail = replay_detail(payload)
                res["replays"] += 1
                if ok:
                    res["errors"].append(f"non-reproducing {text}")
                else:
                    payload["observed"] = detail
                    payload["signature"] = {"spec": spec.as_json()}
                    res["violations"].append(payload)
            elif st == "unknown":
                res["errors"].append("solver unknown")
    res["samples"] = [{"undefined_layer_rules": n}]
    return res


ENTRY_OPTS = ["exclusions", "regex_exclusions", "external_exclusions", "regex_external_exclusions", "exclude_external_libraries"]
# where module_path lies (one n-ary symbolic choice): inside root_path, or outside in one of the ways a path can be
# outside - an unrelated sibling, root_path's parent, a sibling whose NAME extends root_path's name (so that the two
# path strings share a raw prefix), something below such a sibling, a sibling whose name is a prefix of the root's
LEVEL_LIMITS = [None, 0, 1, 2]
MODULE_PLACES = ["root/pkg", "root", "root/pkg/sub", "elsewhere", "", "root_legacy", "root_legacy/tools", "roo", "rootpkg"]
N_INSIDE = 3


def entry_call(root: str, opts: dict):
    from pytestarch import get_evaluable_architecture

    kw = {}
    kw["exclusions"] = ("*skip*",) if opts["exclusions"] else ()
    if opts["regex_exclusions"]:
        kw["regex_exclusions"] = (".*skip.*",)
    if opts["external_exclusions"]:
        kw["external_exclusions"] = ("os*",)
    if opts["regex_external_exclusions"]:
        kw["regex_external_exclusions"] = ("os.*",)
    kw["exclude_external_libraries"] = bool(opts["exclude_external_libraries"])
    place = MODULE_PLACES[opts["module_place"]]
    mp = os.path.join(os.path.dirname(root), place) if place else os.path.dirname(root)
    limit = LEVEL_LIMITS[opts.get("level_limit", 0)]
    if limit is not None:
        kw["level_limit"] = limit
    try:
        ev = get_evaluable_architecture(root, mp, **kw)
    except Exception as e:  # noqa: BLE001
        return ("ERROR", type(e).__name__)
    if place != "root/pkg":
        return ("OK", len(ev.modules))
    # a rule that names root.pkg.sub.k - two levels below module_path root/pkg: absent from the architecture when the
    # level limit is 0 or 1, present without a limit and with limit 2
    from pytestarch import Rule

    try:
        Rule().modules_that().are_named("root.pkg.sub.k").should_not().import_modules_that().are_named("root.pkg").assert_applies(ev)
        return ("OK", "PASS")
    except AssertionError:
        return ("OK", "FAIL")
    except Exception as e:  # noqa: BLE001
        return ("ERROR", type(e).__name__)


def entry_invalid(o: dict) -> bool:
    return bool(
        (o["regex_exclusions"] and o["exclusions"])
        or (o["regex_external_exclusions"] and o["external_exclusions"])
        or (o["exclude_external_libraries"] and (o["external_exclusions"] or o["regex_external_exclusions"]))
        or o["module_place"] >= N_INSIDE
        or (MODULE_PLACES[o["module_place"]] == "root/pkg" and LEVEL_LIMITS[o.get("level_limit", 0)] in (0, 1))
    )


def _make_project(d):
    root = os.path.join(d, "root")
    os.makedirs(os.path.join(root, "pkg", "sub"))
    with open(os.path.join(root, "pkg", "sub", "k.py"), "w") as f:
        f.write("from .. import m\n")
    for place in MODULE_PLACES[N_INSIDE:]:
        if place and place != "elsewhere":
            os.makedirs(os.path.join(d, place))
            with open(os.path.join(d, place, "n.py"), "w") as f:
                f.write("import os\n")
    os.makedirs(os.path.join(d, "elsewhere"))
    open(os.path.join(root, "pkg", "__init__.py"), "w").close()
    with open(os.path.join(root, "pkg", "m.py"), "w") as f:
        f.write("import os\n")
    with open(os.path.join(d, "elsewhere", "n.py"), "w") as f:
        f.write("import os\n")
    return root


def work_entry(inst) -> dict:
    scratch = tempfile.mkdtemp(prefix="c13e_", dir=os.environ.get("VERIF_SCRATCH"))
    try:
        root = _make_project(scratch)

        def fn():
            opts = {k: ENGINE.branch(("opt", k)) for k in ENTRY_OPTS}
            opts["module_place"] = ENGINE.choice(("opt", "module_place"), len(MODULE_PLACES))
            opts["level_limit"] = ENGINE.choice(("opt", "level_limit"), len(LEVEL_LIMITS))
            got = entry_call(root, opts)
            return (entry_invalid(opts), got[0])

        summ, funcs, over = explore_fn(fn, 1 << 12)
        pool = VarPool()
        for k in ENTRY_OPTS:
            pool(("opt", k))
        pool(("opt", "module_place"), len(MODULE_PLACES))
        pool(("opt", "level_limit"), len(LEVEL_LIMITS))
        bad = summ.formula(lambda o: o[0] and o[1] != "ERROR", pool)
        st, model = solver().check(bad)
        res = {"functions": funcs, "variables_total": len(ENTRY_OPTS), "paths": summ.paths, "forks": summ.forks, "errors": [], "violations": [], "replays": 0, "degenerate": True}
        wit = summ.formula(lambda o: (not o[0]) and o[1] == "OK", pool)
        if solver().check(wit)[0] != "sat":
            res["errors"].append("vacuity: no valid option combination builds an architecture")
        if st == "sat":
            a = pool.model_to_assign(model)
            opts = {k: a.get(("opt", k), 0) for k in ENTRY_OPTS + ["module_place", "level_limit"]}
            payload = {"kind": "entry", "options": opts}
            ok, text, detail = replay_detail(payload)
            res["replays"] += 1
            if ok:
                res["errors"].append(f"non-reproducing {text}")
            else:
                payload["observed"] = detail
                payload["signature"] = {"options": opts}
                res["violations"].append(payload)
        res["samples"] = [{"entry_option_combinations": summ.paths, "outcomes": sorted(map(str, summ.outcomes()))}]
        return res
    finally:
        shutil.rmtree(scratch, ignore_errors=True)


# ---------------------------------------------------------------------------------------------------


def replay_detail(payload: dict):
    warnings.simplefilter("ignore")
    kind = payload["kind"]
    if kind == "history":
        scratch = tempfile.mkdtemp(prefix="c13r_", dir=os.environ.get("VERIF_SCRATCH"))
        try:
            _write_diagrams(scratch)
            fam = Family(payload["family"], scratch)
            seq = [Sym(n, a) for n, a in payload["history"]]
            ev = real_architecture(payload["nodes"], [tuple(e) for e in payload["edges"]])
            must, cls, fin = history_outcome(fam, seq, ev)
            ok = not (must and cls in ("PASS", "FAIL"))
            text = f"{fam.name} history {' . '.join(s.show() for s in seq)} . assert_applies on imports {payload['edges']}: specification class '{fin}' (must not yield a verdict: {must}); real code -> {cls}"
            return ok, text, {"real": cls, "spec": fin}
        finally:
            shutil.rmtree(scratch, ignore_errors=True)
    if kind == "unknown-name":
        spec = RuleSpec.from_json(payload["spec"])
        ev = real_architecture(payload["nodes"], [tuple(e) for e in payload["edges"]], payload.get("level_limit"))
        got = evaluate(build_rule(spec), ev, with_message=False)
        ok = got[0] == "ERROR"
        return ok, f"rule [{spec.label()}] on modules {ev.modules}: real code -> {got} (a name absent from the architecture must raise)", {"real": list(got)}
    if kind == "unknown-layer":
        from vf.oracles.layers import LayerSpec, build_layer_rule

        spec = LayerSpec.from_json(payload["spec"])
        ev = real_architecture(payload["nodes"], [tuple(e) for e in payload["edges"]])
        try:
            got = evaluate(build_layer_rule(spec), ev, with_message=False)
        except Exception as e:  # noqa: BLE001
            got = ("ERROR", type(e).__name__)
        return got[0] == "ERROR", f"layer rule {spec.label()}: real code -> {got}", {"real": list(got)}
    if kind == "entry":
        scratch = tempfile.mkdtemp(prefix="c13r_", dir=os.environ.get("VERIF_SCRATCH"))
        try:
            root = _make_project(scratch)
            got = entry_call(root, payload["options"])
            ok = not (entry_invalid(payload["options"]) and got[0] != "ERROR")
            return ok, f"get_evaluable_architecture with options {payload['options']}: -> {got}", {"real": list(got)}
        finally:
            shutil.rmtree(scratch, ignore_errors=True)
    raise ValueError(kind)


def replay(payload: dict):
    ok, text, _ = replay_detail(payload)
    return ok, text


def run(tier: str, only: str | None = None) -> int:
    rep = runner.Report(PROP, tier)
    items = instances(tier)
    if only:
        items = [i for i in items if only in label_of(i)]
    rep.bounds = {
        "history_length": LEN[tier],
        "vocabularies": {"Rule": len(RULE_VOCAB), "LayerRule": len(LAYER_VOCAB), "DiagramRule": len(DIAGRAM_VOCAB)},
        "architecture": f"modules {NODES}, every import relation (symbolic)",
        "mutants": "every single deletion, duplication and adjacent transposition of every complete Rule (4-5 calls) and LayerRule (5-6 calls) chain",
        "unknown_names": "misspelt, too deep, bare component, trailing dot, never-matching regexes, too-deep names on a level_limit=1 graph, undefined layers; on subject side, object side and inside a batch; all 12 shapes",
        "entry_points": "2^5 combinations of option-supplied bits x level_limit none / 0 / 1 / 2 (with a rule naming a module two levels below module_path) x 9 placements of module_path (3 inside root_path; outside: unrelated sibling, the parent, siblings whose names extend / are a prefix of the root directory's name, a directory below such a sibling)",
    }
    rep.assumptions = [
        "history dimension is enumerated by the symbolic executor (n-ary choices); the import relation is solver-quantified and, for rejected rules, never inspected",
        "a history whose object list precedes its subject but which is complete at assert time is not classified (DESIGN C13)",
        "diagram files and the entry-point project are real files in a scratch directory (removed afterwards)",
    ]
    rep.stubs = ["SymDiGraph"]
    runner.run_pool(work, items, rep)
    return runner.finish(rep)
