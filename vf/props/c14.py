"""C14 - module identity follows dotted-name boundaries, never raw string prefixes.

(a) XH kernels (vf/kernels/k14.py, plus the label kernel of k17): every place that decides "is part of" by
    comparing raw names, names symbolic, against the dotted-component predicate.
(b) SYMEX, renaming invariance: one abstract module tree under two injective component namings - a
    collision-free one and an adversarial one (a, x, xy, x_y, xx ...: siblings that are string prefixes /
    substrings of each other) - with the SAME symbolic import relation (z3 variables of the two runs are
    equated per abstract module pair).  For every rule the two decision-tree summaries must give the same
    outcome after every module name in verdicts and message records is mapped back to its abstract node:
        exists e.  abstract(outcome_neutral(e)) != abstract(outcome_adversarial(e))      must be unsat.
    Rules: all 12 module-rule shapes with named / sub-modules-of filters (related pairs included), batched
    subjects incl. batched import_anything, name-listed layer rules with layer tags in the messages.
"""

from __future__ import annotations

import itertools

import z3

from vf.engine import runner
from vf.engine.rulesym import SymArch, explore_fn, solver, solver_delta, validate_samples
from vf.engine.stubs_graph import real_architecture
from vf.engine.xh import kernel_names, replay_kernel, run_kernels
from vf.oracles.layers import LayerSpec, build_layer_rule
from vf.oracles.messages import parse_line
from vf.universes import NAMINGS, SHAPES, TREES, RuleSpec, build_rule, concrete, evaluate, related, rename

PROP = "C14"
CAPS = {"quick": 1 << 15, "thorough": 1 << 18}
N1, N2 = "neutral", "adv"


# ---------------------------------------------------------------------------------------------------
# abstraction of outcomes


def inverse(tree: str, naming: str) -> dict:
    return {rename(n, naming): n for n in TREES[tree]}


def abstract_outcome(o: tuple, inv: dict):
    if o[0] != "FAIL":
        return o
    recs = []
    for ln in o[1]:
        r = parse_line(ln)
        if r[0] == "dep":
            recs.append(("dep", r[1], inv.get(r[2], "?" + r[2]), inv.get(r[3], "?" + r[3]), r[4], r[5]))
        elif r[0] == "missing":
            recs.append(("missing", r[1], r[2], inv.get(r[3], "?" + r[3]), r[4], tuple(sorted((s, inv.get(n, "?" + n)) for s, n in r[5]))))
        else:
            recs.append(("unparsed", ln))
    return ("FAIL", frozenset(recs))


# ---------------------------------------------------------------------------------------------------
# instances


def _ren_spec(spec: RuleSpec, naming: str) -> RuleSpec:
    return RuleSpec(spec.verb, spec.direction, spec.exc, spec.s_kind, tuple(rename(s, naming) for s in spec.subjects), spec.o_kind, tuple(rename(o, naming) for o in spec.objects), spec.anything)


def _ren_layers(spec: LayerSpec, naming: str) -> LayerSpec:
    return LayerSpec(tuple((n, k, tuple(rename(m, naming) for m in p)) for n, k, p in spec.layers), spec.verb, spec.direction, spec.exc, spec.subject, spec.objects, spec.anything, spec.str_form)


def rule_instances(tree: str, tier: str) -> list[RuleSpec]:
    nodes = TREES[tree]
    out = []
    kinds = ("named", "sub")
    for s in nodes:
        for o in nodes:
            for sk in kinds:
                for ok in kinds:
                    if tier == "quick" and sk == "sub" and ok == "sub":
                        continue
                    for verb, direction, exc in SHAPES:
                        out.append(RuleSpec(verb, direction, exc, sk, (s,), ok, (o,)))
    for s in nodes:
        for sk in kinds:
            for d in ("import", "imported"):
                out.append(RuleSpec("should_not", d, False, sk, (s,), "named", (), True))
    # batches: two subjects (incl. batched 'anything' - the subject de-duplication), two objects
    for S in itertools.combinations(nodes, 2):
        for d in ("import", "imported"):
            out.append(RuleSpec("should_not", d, False, "named", S, "named", (), True))
        for o in nodes:
            if o in S:
                continue
            for verb, direction, exc in SHAPES if tier == "thorough" else SHAPES[::3]:
                out.append(RuleSpec(verb, direction, exc, "named", S, "named", (o,)))
    for s in nodes:
        for O in itertools.combinations([n for n in nodes if n != s], 2):
            for verb, direction, exc in SHAPES if tier == "thorough" else SHAPES[1::4]:
                out.append(RuleSpec(verb, direction, exc, "named", (s,), "named", O))
    return out


def layer_instances(tree: str, tier: str) -> list[LayerSpec]:
    nodes = TREES[tree]
    out = []
    cands = [n for n in nodes if "." in n]
    seen = 0
    for k in (2, 3):
        for M in itertools.combinations(cands, k):
            if any(related(a, b) for a, b in itertools.combinations(M, 2)):
                continue
            for split in range(1, k):
                layers = (("L0", "names", tuple(M[:split])), ("L1", "names", tuple(M[split:])))
                for si, oi in ((0, 1), (1, 0)):
                    for verb, direction, exc in SHAPES:
                        d = "access" if direction == "import" else "accessed"
                        out.append(LayerSpec(layers, verb, d, exc, f"L{si}", (f"L{oi}",)))
                    for d in ("access", "accessed"):
                        out.append(LayerSpec(layers, "should_not", d, False, f"L{si}", (), True))
                seen += 1
    if tier == "quick":
        out = out[:: max(1, len(out) // 120)]
    # the documented single-string form of containing_modules("name") for layers that hold one module each: the
    # definition itself (duplicate guard, lookup tables) must treat 'a.xy' as different from 'a.x'
    import dataclasses

    single = [s for s in out if all(len(p) == 1 for _, _, p in s.layers)]
    out += [dataclasses.replace(s, str_form=True) for s in single[:: (2 if tier == "quick" else 1)]]
    return out


def instances(tier: str) -> list[dict]:
    out = [{"part": "kernel", "module": "vf.kernels.k14", "name": k, "tier": tier} for k in kernel_names("vf.kernels.k14")]
    out.append({"part": "kernel", "module": "vf.kernels.k17", "name": "label_one_alias", "tier": tier})
    # the hierarchy itself (which decides every 'sub module of') is derived from names by get_parent_modules
    out.append({"part": "kernel", "module": "vf.kernels.k02", "name": "parent_modules", "tier": tier})
    trees = ["T4", "T5a"] if tier == "quick" else ["T4", "T5a", "T5b", "T5c", "T5d"]
    for t in trees:
        specs = rule_instances(t, tier)
        if tier == "quick" and t != "T4":
            specs = [s for s in specs if len(s.subjects) > 1 or s.anything or s.s_kind == "sub" or s.o_kind == "sub"][::3]
        for s in specs:
            out.append({"part": "rule", "tree": t, "spec": s.as_json(), "cap": CAPS[tier]})
        for s in layer_instances(t, tier):
            out.append({"part": "layer", "tree": t, "spec": s.as_json(), "cap": CAPS[tier]})
    # second adversarial naming (a package named like a part of the package directly above it) on trees of depth >= 3
    for t in ["T4n"] if tier == "quick" else ["T4n", "T5c", "T5a", "T5b"]:
        specs = rule_instances(t, tier)
        specs = [s for s in specs if s.anything or s.s_kind == "sub" or s.o_kind == "sub" or len(s.subjects) > 1][:: (3 if tier == "quick" else 2)]
        for s in specs:
            out.append({"part": "rule", "tree": t, "spec": s.as_json(), "naming2": "adv2", "cap": CAPS[tier]})
        for s in layer_instances(t, tier)[:: (4 if tier == "quick" else 1)]:
            out.append({"part": "layer", "tree": t, "spec": s.as_json(), "naming2": "adv2", "cap": CAPS[tier]})
    return out


def label_of(i: dict) -> str:
    if i["part"] == "kernel":
        return f"kernel {i['name']}"
    spec = RuleSpec.from_json(i["spec"]) if i["part"] == "rule" else LayerSpec.from_json(i["spec"])
    return f"{i['part']} {i['tree']}{'/' + i['naming2'] if i.get('naming2') else ''}: {spec.label()}"


# ---------------------------------------------------------------------------------------------------


def _outcome(part, spec, ev):
    try:
        rule = build_rule(spec) if part == "rule" else build_layer_rule(spec)
    except Exception as e:  # noqa: BLE001
        return ("ERROR", type(e).__name__)
    return evaluate(rule, ev, with_message=True)


def work(inst: dict) -> dict:
    if inst["part"] == "kernel":
        res = run_kernels(inst["module"], inst["tier"], [inst["name"]])
        res["label"] = label_of(inst)
        return res
    before = solver().stats()
    part, tree = inst["part"], inst["tree"]
    aspec = RuleSpec.from_json(inst["spec"]) if part == "rule" else LayerSpec.from_json(inst["spec"])
    ren = _ren_spec if part == "rule" else _ren_layers
    label = label_of(inst)
    res = {"label": label, "errors": [], "violations": [], "replays": 0, "paths": 0, "forks": 0, "explore_s": 0.0, "functions": set()}
    sides = []
    N2 = inst.get("naming2", "adv")
    for naming in (N1, N2):
        nodes = concrete(tree, naming)
        arch = SymArch(nodes, tag=naming)
        spec = ren(aspec, naming)

        def fn(spec=spec, arch=arch):
            return _outcome(part, spec, arch.ev)

        summ, funcs, over = explore_fn(fn, inst["cap"], record_functions=naming == N1)
        res["functions"] |= funcs
        if over:
            res.update({"over_budget": True, "paths": res["paths"] + inst["cap"]})
            return res
        res["paths"] += summ.paths
        res["forks"] += summ.forks
        res["explore_s"] += summ.explore_s
        n, errs = validate_samples(summ, arch, lambda edges, spec=spec, nodes=nodes: _outcome(part, spec, real_architecture(nodes, edges)), k=1)
        res["replays"] += n
        res["errors"] += errs
        sides.append((naming, nodes, arch, spec, summ, inverse(tree, naming)))
    (n1, nodes1, a1, s1, sum1, inv1), (n2, nodes2, a2, s2, sum2, inv2) = sides
    # the same import relation under both namings
    link = []
    for x, y in a1.pairs:
        ax, ay = inv1[x], inv1[y]
        link.append(a1.var(x, y) == a2.var(rename(ax, N2), rename(ay, N2)))
    res["variables_total"] = len(a1.pairs)
    res["dont_care_vars"] = len(a1.pairs) - len(sum1.keys_in_tree())
    abs1 = {o: abstract_outcome(o, inv1) for o in sum1.outcomes()}
    abs2 = {o: abstract_outcome(o, inv2) for o in sum2.outcomes()}
    differ = []
    for O in set(abs1.values()) | set(abs2.values()):
        f1 = sum1.formula(lambda o, O=O: abs1[o] == O, a1.pool)
        f2 = sum2.formula(lambda o, O=O: abs2[o] == O, a2.pool)
        differ.append(f1 != f2)
    st, model = solver().check(*link, z3.Or(*differ))
    if st == "unknown":
        res["errors"].append(f"solver unknown on {label}")
    elif st == "sat":
        aedges = [(inv1[x], inv1[y]) for x, y in a1.model_edges(model)]
        payload = {"kind": part, "tree": tree, "spec": inst["spec"], "edges": [list(e) for e in aedges], "label": label, "naming2": N2}
        ok, text, detail = replay_detail(payload)
        res["replays"] += 2
        if ok:
            res["errors"].append(f"non-reproducing counterexample: {label} edges={aedges} {text}")
        else:
            payload["observed"] = detail
            payload["text"] = text
            payload["signature"] = {"part": part, "tree": tree, "spec": inst["spec"], "naming2": N2}
            res["violations"].append(payload)
    if sum1.sample_paths:
        a, o = sum1.sample_paths[0]
        res["samples"] = [{"instance": label, "neutral_names": nodes1, "adversarial_names": nodes2, "path_edges": a1.edges_of(a), "outcome": [str(x)[:160] for x in o], "paths": [sum1.paths, sum2.paths], "distinct_abstract_outcomes": len(differ)}]
    res.update(solver_delta(before))
    return res


def replay_detail(payload: dict):
    if payload["kind"] == "kernel":
        return replay_kernel(payload)
    part, tree = payload["kind"], payload["tree"]
    aspec = RuleSpec.from_json(payload["spec"]) if part == "rule" else LayerSpec.from_json(payload["spec"])
    ren = _ren_spec if part == "rule" else _ren_layers
    outs = []
    N2 = payload.get("naming2", "adv")
    for naming in (N1, N2):
        nodes = concrete(tree, naming)
        edges = [(rename(x, naming), rename(y, naming)) for x, y in payload["edges"]]
        o = _outcome(part, ren(aspec, naming), real_architecture(nodes, edges))
        outs.append((naming, nodes, edges, o, abstract_outcome(o, inverse(tree, naming))))
    ok = outs[0][4] == outs[1][4]
    text = (
        f"{part} rule [{aspec.label()}] over abstract tree {TREES[tree]} with abstract imports {payload['edges']}: "
        f"under naming {NAMINGS[N1]} -> {str(outs[0][3])[:300]}; under naming {NAMINGS[N2]} (modules {outs[1][1]}, imports {outs[1][2]}) -> {str(outs[1][3])[:300]}"
        + ("" if not ok else " [equal up to renaming]")
    )
    return ok, text, {"neutral": str(outs[0][4])[:600], "adversarial": str(outs[1][4])[:600]}


def replay(payload: dict):
    ok, text, _ = replay_detail(payload)
    return ok, text


def run(tier: str, only: str | None = None) -> int:
    rep = runner.Report(PROP, tier)
    items = instances(tier)
    if only:
        items = [i for i in items if only in label_of(i)]
    rep.bounds = {
        "kernels": "well-formed dotted names over {a,b,.}, <= 5 chars (two-layer lookup <= 4)",
        "trees": sorted({i["tree"] for i in items if "tree" in i}),
        "namings": {N1: NAMINGS[N1], N2: NAMINGS[N2], "adv2": NAMINGS["adv2"]},
        "rules": "12 shapes x named/sub filters x every ordered module pair (related included), 'anything' aliases, two-subject batches incl. batched import_anything, two-object batches; two-layer name-listed layer rules (14 shapes)",
        "path_cap_per_summary": CAPS[tier],
    }
    rep.assumptions = [
        "SymDiGraph stub (validated on sampled paths and on every model)",
        "message lines are compared as sets of parsed records with names mapped back to abstract nodes (line order legitimately follows the names)",
        "regex specifications excluded (renaming changes what they match)",
    ]
    rep.stubs = ["SymDiGraph"]
    # kernels first: they are the long poles
    items.sort(key=lambda i: 0 if i["part"] == "kernel" else 1)
    runner.run_pool(work, items, rep, chunksize=1)
    return runner.finish(rep)
