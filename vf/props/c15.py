"""C15 - evaluation is pure and independent of order, history and hash seed.

(pure)    one inductive step, for every rule / layer rule / diagram rule of the listed space, on every path of the
          real pipeline over a symbolic import relation: the architecture object graph (every attribute reachable
          from the evaluable) is snapshotted before and after assert_applies and must be equal; the same rule
          object re-applied gives the same outcome and message; applied afterwards to a SECOND architecture with
          fresh variables it gives what a fresh rule object gives there.  Since no evaluation changes the shared
          state, any interleaving of any length evaluates each rule on the same state (stated argument).
(history) explicit check of that argument at length 3: histories of three rule evaluations drawn by n-ary
          symbolic choices from a pool of module / layer / diagram rules on one shared evaluable; the last
          outcome equals the outcome of a fresh evaluation of the same rule.
(order)   for every permutation of 2-3 subjects, objects, layers: equal summaries, raw message text included
          (one z3 query per pair of permutations over two decision-tree summaries).
(scan)    two scans of the same symbolic file tree under independent symbolic directory-enumeration orders
          (iterdir permutations) and under permuted exclusion tuples: equal module and import sets.
(scanhist) scans of one tree in one process under different configurations (module_path, exclusions, level_limit,
          externals): the last scan is judged by C04's absolute reference.
(ndset)   set-iteration-order nondeterminism (models the hash seed): see vf/engine/ndset_loader.py.
"""

from __future__ import annotations

import itertools
import os
import random

import z3

from vf.engine import runner
from vf.engine.mm import check_no_mismatch
from vf.engine.rulesym import SymArch, explore_fn, solver, solver_delta, validate_samples
from vf.engine.stubs_fs import FSModel, graph_view, symfs
from vf.engine.stubs_graph import SymDiGraph, real_architecture
from vf.engine.symex import ENGINE
from vf.oracles.layers import LayerSpec, build_layer_rule
from vf.universes import SHAPES, RuleSpec, build_rule, concrete

PROP = "C15"
CAPS = {"quick": 1 << 16, "thorough": 1 << 19}
NODES1 = ["p", "p.a", "p.b", "p.c"]
NODES2 = ["p", "p.a", "p.bb"]  # the regex rules of the pool match OTHER modules here than in NODES1 (p.bb instead of p.b)
NODES2B = ["p", "p.a", "p.bb", "p.bbb"]  # second architecture of the pool entries tagged "N2B"


def nodes2_of(desc):
    return NODES2B if len(desc) > 2 and desc[2] == "N2B" else NODES2



def evaluate_raw(rule, ev):
    try:
        rule.assert_applies(ev)
    except AssertionError as e:
        return ("FAIL", str(e.args[0]) if e.args else "")
    except Exception as e:  # noqa: BLE001
        return ("ERROR", type(e).__name__)
    return ("PASS",)


# ---------------------------------------------------------------------------------------------------
# snapshots


def snapshot(obj, depth=0, seen=None):
    """Structural snapshot of everything reachable from obj (attributes, containers); SymDiGraph is summarised by
    its concrete parts (it has no mutators; an attempted write is recorded in .mutations)."""
    import networkx as nx

    if seen is None:
        seen = set()
    if isinstance(obj, (str, int, float, bool, type(None))):
        return obj
    if id(obj) in seen or depth > 6:
        return "<cycle>"
    seen.add(id(obj))
    if isinstance(obj, SymDiGraph):
        return ("SymDiGraph", tuple(obj._nodes), tuple(sorted(obj._hier)), obj.mutations)
    if isinstance(obj, nx.DiGraph):
        return ("DiGraph", tuple(obj.nodes), tuple((u, v, tuple(sorted(d.items()))) for u, v, d in obj.edges(data=True)), nx.is_frozen(obj))
    if isinstance(obj, dict):
        return ("dict", tuple((snapshot(k, depth + 1, seen), snapshot(v, depth + 1, seen)) for k, v in obj.items()))
    if isinstance(obj, (list, tuple)):
        return (type(obj).__name__, tuple(snapshot(x, depth + 1, seen) for x in obj))
    if isinstance(obj, (set, frozenset)):
        return ("set", tuple(sorted((repr(snapshot(x, depth + 1, seen)) for x in obj))))
    if hasattr(obj, "__dict__"):
        return (type(obj).__name__, tuple((k, snapshot(v, depth + 1, seen)) for k, v in sorted(vars(obj).items())))
    return repr(type(obj))


# ---------------------------------------------------------------------------------------------------
# rule pool


_SCRATCH = None


def _diagram_path() -> str:
    global _SCRATCH
    import atexit
    import shutil
    import tempfile

    if _SCRATCH is None or not os.path.isdir(_SCRATCH):
        _SCRATCH = tempfile.mkdtemp(prefix="c15_", dir=os.environ.get("VERIF_SCRATCH"))
        atexit.register(shutil.rmtree, _SCRATCH, True)
        with open(os.path.join(_SCRATCH, "d.puml"), "w") as f:
            f.write("@startuml\n[a] --> [b]\n[c]\n@enduml\n")
        # every arrow source written by ALIAS (two aliased sources, one plain): several generated rules, whose order in
        # the aggregated message must not depend on how the parser's alias bookkeeping is iterated
        with open(os.path.join(_SCRATCH, "alias.puml"), "w") as f:
            f.write("@startuml\n[a] as A1\n[b] as B1\n[c]\nA1 --> [c]\nB1 --> [c]\n[c] --> A1\n@enduml\n")
    return os.path.join(_SCRATCH, "d.puml")


def make_rule(desc):
    kind = desc[0]
    if kind == "rule":
        return build_rule(RuleSpec.from_json(desc[1]))
    if kind == "layer":
        return build_layer_rule(LayerSpec.from_json(desc[1]))
    from pathlib import Path

    from pytestarch import DiagramRule

    path = _diagram_path()
    if kind == "diagram-alias":
        path = os.path.join(os.path.dirname(path), "alias.puml")
    return DiagramRule(should_only_rule=desc[1]).from_file(Path(path)).with_base_module("p")


def rule_pool(tier: str) -> list:
    out = []
    for sk, ok in (("named", "named"), ("sub", "named"), ("named", "sub")):
        for verb, direction, exc in SHAPES:
            s = ("p.a",) if sk == "named" else ("p",)
            o = ("p.b",) if ok == "named" else ("p",)
            if sk == "sub" and ok == "sub":
                continue
            out.append(("rule", RuleSpec(verb, direction, exc, sk, s, ok, o).as_json()))
    for d in ("import", "imported"):
        out.append(("rule", RuleSpec("should_not", d, False, "named", ("p.a",), "named", (), True).as_json()))
        out.append(("rule", RuleSpec("should_not", d, False, "named", ("p.a", "p.b"), "named", (), True).as_json()))
    out.append(("rule", RuleSpec("should_only", "import", False, "named", ("p.a", "p.b"), "named", ("p.c",)).as_json()))
    out.append(("rule", RuleSpec("should", "import", False, "regex", (r"p\.(a|b)",), "named", ("p.c",)).as_json()))
    layers = (("L0", "names", ("p.a",)), ("L1", "names", ("p.b",)))
    for verb, direction, exc in SHAPES:
        d = "access" if direction == "import" else "accessed"
        out.append(("layer", LayerSpec(layers, verb, d, exc, "L0", ("L1",)).as_json()))
    out.append(("layer", LayerSpec(layers, "should_not", "access", False, "L0", (), True).as_json()))
    out.append(("layer", LayerSpec((("L0", "regex", (r"p\.a$",)), ("L1", "names", ("p.b",))), "should_only", "access", False, "L0", ("L1",)).as_json()))
    out.append(("diagram", True))
    out.append(("diagram", False))
    # layers given by a regex that matches OTHER (and more) modules in the second architecture (p.b there; p.bb and
    # p.bbb here): a used layer-rule object must judge the second code base by the second code base's own modules
    rl = (("L0", "regex", (r"p\.b+$",)), ("L1", "names", ("p.a",)))
    for verb, d, exc, subj, obj in (("should_not", "access", False, "L1", "L0"), ("should", "access", False, "L1", "L0"), ("should_only", "access", False, "L0", "L1"), ("should", "access", True, "L0", "L1"), ("should_not", "accessed", True, "L0", "L1")):
        out.append(("layer", LayerSpec(rl, verb, d, exc, subj, (obj,)).as_json(), "N2B"))
    out.append(("rule", RuleSpec("should_not", "import", True, "regex", (r"p\.b+$",), "named", ("p.a",)).as_json(), "N2B"))
    return out


def show(desc) -> str:
    if desc[0] == "rule":
        return RuleSpec.from_json(desc[1]).label()
    if desc[0] == "layer":
        return LayerSpec.from_json(desc[1]).label()
    return f"DiagramRule(should_only={desc[1]}) [a]-->[b], [c] with_base_module(p)"


# ---------------------------------------------------------------------------------------------------
# (pure)


def pure_outcome(desc, ev1, ev2):
    rule = make_rule(desc)
    s0, t0 = snapshot(ev1), snapshot(ev2)
    o1 = evaluate_raw(rule, ev1)
    if snapshot(ev1) != s0:
        return ("MISMATCH", "architecture unchanged by assert_applies", "architecture changed")
    o2 = evaluate_raw(rule, ev1)
    if o2 != o1:
        return ("MISMATCH", f"re-application gives {o1}", f"{o2}")
    o3 = evaluate_raw(rule, ev2)
    o4 = evaluate_raw(make_rule(desc), ev2)
    if o3 != o4:
        return ("MISMATCH", f"on a second architecture the used rule object gives what a fresh one gives: {o4}", f"{o3}")
    if snapshot(ev1) != s0 or snapshot(ev2) != t0:
        return ("MISMATCH", "architectures unchanged", "an architecture changed")
    if desc[0] == "rule":
        # the used rule object re-pointed through the fluent API (new object, then new subject) behaves like a
        # freshly built rule with that configuration
        import dataclasses

        spec = RuleSpec.from_json(desc[1])
        if not spec.anything and spec.s_kind in ("named", "sub") and spec.o_kind in ("named", "sub"):
            spec2 = dataclasses.replace(spec, o_kind="named", objects=("p.c",))
            try:
                rule.are_named("p.c")
            except Exception as e:  # noqa: BLE001
                return ("MISMATCH", "a completed rule accepts a new object", type(e).__name__)
            o5, o6 = evaluate_raw(rule, ev1), evaluate_raw(build_rule(spec2), ev1)
            if o5 != o6:
                return ("MISMATCH", f"after .are_named('p.c') on the used rule object: what a fresh [{spec2.label()}] gives: {o6}", f"{o5}")
            spec3 = dataclasses.replace(spec2, s_kind="named", subjects=("p.b",))
            try:
                rule.modules_that().are_named("p.b")
            except Exception as e:  # noqa: BLE001
                return ("MISMATCH", "a completed rule accepts a new subject", type(e).__name__)
            o7, o8 = evaluate_raw(rule, ev1), evaluate_raw(build_rule(spec3), ev1)
            if o7 != o8:
                return ("MISMATCH", f"after .modules_that().are_named('p.b') on the used rule object: what a fresh [{spec3.label()}] gives: {o8}", f"{o7}")
    return ("OK", o1[0], o3[0])


def _real_arch(nodes, assign, tag):
    edges = [(k[1], k[2]) for k, v in assign.items() if k[0] == tag and v == 1]
    return real_architecture(nodes, edges)


def work_pure(inst) -> dict:
    desc = tuple(inst["rule"])
    a1 = SymArch(NODES1, tag="e")
    a2 = SymArch(nodes2_of(desc), tag="f")

    def fn():
        return pure_outcome(desc, a1.ev, a2.ev)

    def make_payload(assign):
        return {"kind": "pure", "rule": list(desc), "assign": [[list(k), v] for k, v in sorted(assign.items(), key=str)]}

    keys = [(("e", x, y), 2) for x, y in a1.pairs] + [(("f", x, y), 2) for x, y in a2.pairs]
    return check_no_mismatch("pure " + show(desc), fn, inst["cap"], make_payload, replay_detail, all_keys=keys, sample={"rule": show(desc), "first_architecture": NODES1, "second_architecture": nodes2_of(desc)})


# ---------------------------------------------------------------------------------------------------
# (history)


def history_outcome(pool, L, ev, choose, fresh_ev=None):
    """fresh_ev: an architecture object that has never been evaluated on, holding the same import relation."""
    rules = [make_rule(d) for d in pool]  # one object per pool entry, re-used along the history
    last = None
    for n in range(L):
        c = choose(n)
        last = (c, evaluate_raw(rules[c], ev))
    fresh = evaluate_raw(make_rule(pool[last[0]]), fresh_ev if fresh_ev is not None else ev)
    if fresh != last[1]:
        return ("MISMATCH", f"fresh evaluation of [{show(pool[last[0]])}] gives {fresh}", f"after the history: {last[1]}")
    return ("OK", last[1][0])


def work_history(inst) -> dict:
    pool = [tuple(d) for d in inst["pool"]]
    L = inst["L"]
    nodes = inst.get("nodes", NODES1)
    keep = {tuple(v) for v in inst["vars"]} if inst.get("vars") else None
    no_var = [(x, y) for x in nodes for y in nodes if x != y and (x, y) not in keep] if keep else ()
    a1 = SymArch(nodes, tag="e", extra_no_var=no_var)

    def fn():
        # the reference evaluation runs on a brand-new architecture object over the same symbolic relation
        fresh = SymArch(nodes, tag="e", extra_no_var=no_var)
        return history_outcome(pool, L, a1.ev, lambda n: ENGINE.choice(("h", n), len(pool)), fresh.ev)

    def make_payload(assign):
        return {"kind": "history", "pool": [list(d) for d in pool], "L": L, "nodes": nodes, "assign": [[list(k), v] for k, v in sorted(assign.items(), key=str)]}

    keys = [(("e", x, y), 2) for x, y in a1.pairs] + [(("h", n), len(pool)) for n in range(L)]
    return check_no_mismatch(f"history L={L} pool={inst['name']}", fn, inst["cap"], make_payload, replay_detail, all_keys=keys, sample={"pool": [show(d) for d in pool]})


# ---------------------------------------------------------------------------------------------------
# (order)


def order_instances(tier: str) -> list[dict]:
    out = []
    nodes = concrete("T5a", "adv")
    leaves = [n for n in nodes if n.count(".") >= 1]
    trip = leaves[:3]
    for verb, direction, exc in SHAPES:
        for k in (2, 3):
            S = tuple(trip[:k])
            o = [n for n in leaves if n not in S][:1]
            if not o:
                continue
            out.append({"part": "order", "tree": "T5a", "naming": "adv", "what": "subjects", "spec": RuleSpec(verb, direction, exc, "named", S, "named", tuple(o)).as_json()})
            out.append({"part": "order", "tree": "T5a", "naming": "adv", "what": "objects", "spec": RuleSpec(verb, direction, exc, "named", tuple(o), "named", S).as_json()})
    for d in ("import", "imported"):
        out.append({"part": "order", "tree": "T5a", "naming": "adv", "what": "subjects", "spec": RuleSpec("should_not", d, False, "named", tuple(trip), "named", (), True).as_json()})
    out2 = []
    for i in out:
        if tier == "quick" and len(i["spec"]["subjects"]) + len(i["spec"]["objects"]) > 3 and i["spec"]["direction"] == "imported":
            continue
        out2.append(i)
    # layer order: the same layers defined in several orders, object layers listed in both orders; all-named layers and
    # object layers of MIXED kind (one given by a regex, one by name: which kind is listed last must not matter)
    import re as _re

    for tree in ("T4",) if tier == "quick" else ("T4", "T5a"):
        tn = concrete(tree, "adv")
        ll = [n for n in tn if "." in n and not any(m != n and m.startswith(n + ".") for m in tn)][:3]
        layers = (("L0", "names", (ll[0],)), ("L1", "names", (ll[1],)), ("L2", "names", (ll[2],)))
        defs = [layers]
        for li in (1, 2):
            defs.append(tuple((n, "regex", (_re.escape(p[0]) + "$",)) if idx == li else (n, k, p) for idx, (n, k, p) in enumerate(layers)))
        for ld in defs:
            for verb, direction, exc in SHAPES:
                d = "access" if direction == "import" else "accessed"
                out2.append({"part": "order", "tree": tree, "naming": "adv", "what": "layers", "layerspec": LayerSpec(ld, verb, d, exc, "L0", ("L1", "L2")).as_json()})
    return out2


def work_order(inst) -> dict:
    before = solver().stats()
    nodes = concrete(inst["tree"], inst["naming"])
    arch = SymArch(nodes)
    res = {"label": label_of(inst), "errors": [], "violations": [], "replays": 0, "paths": 0, "forks": 0, "explore_s": 0.0, "functions": set(), "variables_total": len(arch.pairs)}
    variants = []
    if "spec" in inst:
        spec = RuleSpec.from_json(inst["spec"])
        seq = spec.subjects if inst["what"] == "subjects" else spec.objects
        for perm in itertools.permutations(seq):
            s2 = RuleSpec(spec.verb, spec.direction, spec.exc, spec.s_kind, perm if inst["what"] == "subjects" else spec.subjects, spec.o_kind, perm if inst["what"] == "objects" else spec.objects, spec.anything)
            variants.append((list(perm), lambda s2=s2: build_rule(s2, single_as_list=True)))
    else:
        ls = LayerSpec.from_json(inst["layerspec"])
        for lperm in itertools.permutations(ls.layers):
            for operm in itertools.permutations(ls.objects):
                l2 = LayerSpec(tuple(lperm), ls.verb, ls.direction, ls.exc, ls.subject, tuple(operm), ls.anything)
                variants.append(([x[0] for x in lperm] + list(operm), lambda l2=l2: build_layer_rule(l2)))
        if len(variants) > 6:
            # half of the (definition order, object order) combinations, alternating the object order
            variants = [v for i, v in enumerate(variants) if (i // 2 + i) % 2 == 0]
    summs = []
    for name, mk in variants:
        def fn(mk=mk):
            return evaluate_raw(mk(), arch.ev)

        summ, funcs, over = explore_fn(fn, inst["cap"], record_functions=not summs)
        res["functions"] |= funcs
        if over:
            res.update({"over_budget": True, "paths": res["paths"] + inst["cap"]})
            return res
        res["paths"] += summ.paths
        res["forks"] += summ.forks
        res["explore_s"] += summ.explore_s
        n, errs = validate_samples(summ, arch, lambda edges, mk=mk: evaluate_raw(mk(), real_architecture(nodes, edges)), k=1)
        res["replays"] += n
        res["errors"] += errs
        summs.append((name, mk, summ))
    base = summs[0]
    res["dont_care_vars"] = len(arch.pairs) - len(base[2].keys_in_tree())
    for name, mk, summ in summs[1:]:
        outs = set(base[2].outcomes()) | set(summ.outcomes())
        q = z3.Or(*[base[2].formula(lambda o, O=O: o == O, arch.pool) != summ.formula(lambda o, O=O: o == O, arch.pool) for O in outs])
        st, model = solver().check(q)
        if st == "unknown":
            res["errors"].append(f"solver unknown on {res['label']}")
        elif st == "sat":
            edges = arch.model_edges(model)
            payload = {"kind": "order", "inst": {k: v for k, v in inst.items() if k != "cap"}, "orders": [base[0], name], "edges": [list(e) for e in edges]}
            ok, text, detail = replay_detail(payload)
            res["replays"] += 2
            if ok:
                res["errors"].append(f"non-reproducing counterexample: {res['label']} {text}")
            else:
                payload.update({"text": text, "observed": detail, "signature": {"inst": payload["inst"]}})
                res["violations"].append(payload)
            break
    if base[2].sample_paths:
        a, o = base[2].sample_paths[0]
        res["samples"] = [{"instance": res["label"], "orders_compared": [s[0] for s in summs], "path_edges": arch.edges_of(a), "outcome": repr(o)[:200]}]
    res.update(solver_delta(before))
    return res


# ---------------------------------------------------------------------------------------------------
# (scan)

SCAN_CANDS = {"r": "dir", "r/a": "dir", "r/a/m.py": "file", "r/a/n.py": "file", "r/b.py": "file", "r/c": "dir", "r/c/k.py": "file", "r/c/d.py": "file",
              "r/a/nn.py": "file",  # matches the back-reference pattern below
              "r/c.py": "file"}  # a file beside a package of the same name: enumeration order must not matter
SCAN_LINES = {"r/a/m.py": ["import r.b", "from r.c import k"], "r/b.py": ["import r.a.n"], "r/c/k.py": ["import r.c.d", "import r.a.m"]}
SCAN_EXCL = ("*d.py", "*n.py*", "*__pycache__*")
# regex exclusions incl. a back-reference (group numbering must not depend on the position in the tuple)
SCAN_REGEX_EXCL = (r".*/(\w)\1\.py$", r".*/(c)/(k)\.py$", r".*__pycache__.*")


class TaggedFS(FSModel):
    """FSModel whose iterdir permutation atoms are namespaced by a tag, so that two scans on one path can see the
    same tree in independent enumeration orders."""

    tag = 0

    def children(self, rel):
        out = [c for c in self.kids.get(rel, []) if self.exists(c)]
        if len(out) > 1:
            perms = list(itertools.permutations(range(len(out))))
            k = ENGINE.choice(("perm", self.tag, rel, len(out)), len(perms))
            out = [out[i] for i in perms[k]]
        return out


def scan_outcome(model: TaggedFS, excl_perm: int, mode: str = "glob"):
    from pytestarch import get_evaluable_architecture

    res = []
    perms = list(itertools.permutations(SCAN_EXCL if mode == "glob" else SCAN_REGEX_EXCL))
    with symfs(model):
        for tag, ex in ((1, perms[0]), (2, perms[excl_perm % len(perms)])):
            model.tag = tag
            try:
                kw = {"exclusions": tuple(ex)} if mode == "glob" else {"exclusions": (), "regex_exclusions": tuple(ex)}
                ev = get_evaluable_architecture("/symfs/r", "/symfs/r", **kw)
                n, i, h = graph_view(ev)
                res.append((frozenset(n), frozenset(i), frozenset(h)))
            except Exception as e:  # noqa: BLE001
                res.append(("ERROR", type(e).__name__))
    if res[0] != res[1]:
        return ("MISMATCH", f"second scan equal to the first: {[sorted(x) if not isinstance(x, str) else x for x in res[0]]}", f"{[sorted(x) if not isinstance(x, str) else x for x in res[1]]}")
    return ("OK", len(res[0][0]) if res[0][0] != "ERROR" else -1)


def work_scan(inst) -> dict:
    model = TaggedFS(SCAN_CANDS, SCAN_LINES, fixed=inst.get("fixed", {}), lines_fixed=True)

    def fn():
        return scan_outcome(model, inst["excl_perm"], inst.get("mode", "glob"))

    def make_payload(assign):
        return {"kind": "scan", "excl_perm": inst["excl_perm"], "mode": inst.get("mode", "glob"), "fixed": inst.get("fixed", {}), "assign": [[list(k), v] for k, v in sorted(assign.items(), key=str)]}

    return check_no_mismatch(label_of(inst), fn, inst["cap"], make_payload, replay_detail, all_keys=model.all_keys(), sample={"candidate_paths": sorted(SCAN_CANDS), "exclusions": list(SCAN_EXCL)})


# ---------------------------------------------------------------------------------------------------
# (scanhist) scans of one tree in one process under DIFFERENT configurations: the last scan is judged by C04's
# absolute reference (modules / hierarchy / imports of the directory tree), so whatever an earlier scan left behind in
# process-wide state (memo tables keyed on less than their inputs, class attributes) shows as a deviation.

SCANHIST_FIRST = [
    # (module_path, keyword arguments) of the scan that runs first; its result is not judged
    ("r/a", {"exclusions": ("*x*",)}),
    ("r/a", {"exclusions": ("*m.py", "*__init__.py")}),
    ("r", {"exclusions": ("*a_b*", "*ab.py")}),
    ("r/a/x", {}),
    ("r", {"level_limit": 1}),
    ("r/a", {"exclude_external_libraries": False}),
    ("r/a", {"exclusions": (), "regex_exclusions": (r".*/u\.py$",)}),
]


def scanhist_outcome(inst, model: FSModel):
    from pytestarch import get_evaluable_architecture

    from vf.props import c04

    with symfs(model):
        for step in range(inst.get("pre", 1)):
            k = ENGINE.choice(("first", step), len(SCANHIST_FIRST))
            mp1, kw = SCANHIST_FIRST[k]
            try:
                get_evaluable_architecture("/symfs/r", "/symfs/" + mp1, **kw)
            except Exception:  # noqa: BLE001 - e.g. the first module path does not exist on this path
                pass
        got = c04.scan(None, inst["mp"], "path")
        view = c04.lazy_view(model)
    return c04.judge(model, view, inst["mp"], got, None)


def work_scanhist(inst) -> dict:
    from vf.props import c04

    model = c04.make_model(inst)

    def fn():
        return scanhist_outcome(inst, model)

    def make_payload(assign):
        return {"kind": "scanhist", "inst": {k: v for k, v in inst.items() if k != "cap"}, "assign": [[list(k), v] for k, v in sorted(assign.items(), key=str)]}

    keys = model.all_keys() + [(("first", i), len(SCANHIST_FIRST)) for i in range(inst.get("pre", 1))]
    return check_no_mismatch(label_of(inst), fn, inst["cap"], make_payload, replay_detail, all_keys=keys, sample={"candidate_paths": sorted(model.cands), "first_scans": [str(x) for x in SCANHIST_FIRST]})


def replay_scanhist(payload: dict):
    """Real directory, fresh interpreter state is NOT assumed: the first scan(s) and the judged scan run in this process
    through the unpatched entry point, exactly as a test session would."""
    import shutil
    import tempfile

    from pytestarch import get_evaluable_architecture

    from vf.props import c04

    inst = payload["inst"]
    model = c04.make_model(inst)
    assign = {tuple(k): v for k, v in payload["assign"]}
    d = tempfile.mkdtemp(prefix="c15h_", dir=os.environ.get("VERIF_SCRATCH"))
    try:
        model.materialise(assign, d)
        firsts = []
        for step in range(inst.get("pre", 1)):
            mp1, kw = SCANHIST_FIRST[assign.get(("first", step), 0)]
            firsts.append((mp1, kw))
            try:
                get_evaluable_architecture(os.path.join(d, "r"), os.path.join(d, mp1), **kw)
            except Exception:  # noqa: BLE001
                pass
        got = c04.scan(d, inst["mp"], "path", real=True)
        view = model.concrete(assign)
        o = c04.judge(model, view, inst["mp"], got, None)
    finally:
        shutil.rmtree(d, ignore_errors=True)
    ok = o[0] == "OK"
    return ok, f"tree {sorted(view[0])} with lines {view[1]}: after scanning {firsts} in the same process, the scan of module_path={inst['mp']} " + ("is as specified" if ok else f"should give {o[1]}, gives {o[2]}"), {"outcome": [str(x)[:400] for x in o]}


# ---------------------------------------------------------------------------------------------------


def instances(tier: str) -> list[dict]:
    out = []
    pool = rule_pool(tier)
    for d in pool:
        out.append({"part": "pure", "rule": list(d), "cap": CAPS[tier]})
    rnd = random.Random(runner.seed() + 15)
    n_pool = 4 if tier == "quick" else 5
    base = [d for d in pool if len(d) == 2]
    mod = [d for d in base if d[0] == "rule"]
    for name, sel in (("module", mod[::9]), ("aliases", [d for d in mod if d[1].get("anything")] + mod[1:2]), ("mixed", [base[2], base[-1], base[-4], base[-10], base[-16]]), ("seeded", rnd.sample(base, 5)), ("seeded2", rnd.sample(base, 5))):
        out.append({"part": "history", "name": name, "pool": [list(d) for d in sel][:n_pool], "L": 3, "cap": CAPS[tier]})
    # a 'sub modules of X' rule followed by rules about other subjects with the same objects, on a tree where X is an
    # inner package (state keyed on the object set must not leak from one subject / rule to the next)
    N5 = ["p", "p.a", "p.a.x", "p.b", "p.c"]
    subpool = [
        ("rule", RuleSpec("should_only", "import", False, "sub", ("p.a",), "named", ("p.c",)).as_json()),
        ("rule", RuleSpec("should_only", "import", False, "named", ("p.b",), "named", ("p.c",)).as_json()),
        ("rule", RuleSpec("should_not", "import", True, "named", ("p.b",), "named", ("p.c",)).as_json()),
        ("rule", RuleSpec("should_not", "import", True, "sub", ("p.a",), "named", ("p.c",)).as_json()),
        ("rule", RuleSpec("should_only", "import", False, "sub", ("p.a", "p"), "named", ("p.c",)).as_json()),
    ]
    out.append({"part": "history", "name": "sub-then-named", "pool": [list(d) for d in subpool][: (4 if tier == "quick" else 5)], "L": 3, "nodes": N5, "cap": CAPS[tier],
                "vars": [["p.a.x", "p.c"], ["p.a.x", "p.b"], ["p.b", "p.a"], ["p.b", "p.c"], ["p.b", "p.a.x"], ["p.a", "p.c"], ["p.a", "p.b"]]})
    out += [dict(i, cap=CAPS[tier]) for i in order_instances(tier)]
    for k in range(3 if tier == "quick" else 6):
        out.append({"part": "scan", "excl_perm": k, "cap": CAPS[tier], "fixed": {"r/a": True, "r/c": True, "r/c.py": False}})
        out.append({"part": "scan", "excl_perm": k + 1, "mode": "regex", "cap": CAPS[tier], "fixed": {"r/a": True, "r/c": True, "r/c.py": False, "r/b.py": True}})
    out.append({"part": "scan", "excl_perm": 1, "cap": CAPS[tier], "fixed": {"r/a": True, "r/c": True, "r/c.py": True, "r/a/nn.py": False, "r/a/n.py": False}})
    for mp, lines in (("r/a", "parent-relative"), ("r/a/x", "parent-relative"), ("r/a", "qualified"), ("r", "qualified"), ("r/rb", "prefixpkg")):
        fixed = {"r/notes.txt": False, "r/empty": False} if lines != "prefixpkg" else {"r/pyd": False, "r/k.py": False}
        out.append({"part": "scanhist", "mp": mp, "lines": lines, "pre": 1, "fixed": fixed, "cap": CAPS[tier]})
    if tier == "thorough":
        out.append({"part": "scanhist", "mp": "r/a", "lines": "parent-relative", "pre": 2, "fixed": {"r/notes.txt": False, "r/empty": False, "r/a_b": False}, "cap": CAPS[tier]})
    from vf.props import c15nd

    out += c15nd.instances(tier)
    return out


def label_of(i) -> str:
    if i["part"] == "pure":
        return "pure " + show(tuple(i["rule"]))
    if i["part"] == "history":
        return f"history L={i['L']} pool={i['name']}"
    if i["part"] == "order":
        if "spec" in i:
            return f"order of {i['what']}: {RuleSpec.from_json(i['spec']).label()}"
        return f"order of layers/object layers: {LayerSpec.from_json(i['layerspec']).label()}"
    return " ".join(f"{k}={v}" for k, v in i.items() if k != "cap")


def work(inst: dict) -> dict:
    p = inst["part"]
    if p == "pure":
        return work_pure(inst)
    if p == "history":
        return work_history(inst)
    if p == "order":
        return work_order(inst)
    if p == "scan":
        return work_scan(inst)
    if p == "scanhist":
        return work_scanhist(inst)
    from vf.props import c15nd

    return c15nd.work(inst)


def replay_detail(payload: dict):
    kind = payload["kind"]
    if kind == "ndset":
        from vf.props import c15nd

        return c15nd.replay_detail(payload)
    if kind == "order":
        inst = payload["inst"]
        nodes = concrete(inst["tree"], inst["naming"])
        edges = [tuple(e) for e in payload["edges"]]
        outs = []
        for order in payload["orders"]:
            if "spec" in inst:
                spec = RuleSpec.from_json(inst["spec"])
                s2 = RuleSpec(spec.verb, spec.direction, spec.exc, spec.s_kind, tuple(order) if inst["what"] == "subjects" else spec.subjects, spec.o_kind, tuple(order) if inst["what"] == "objects" else spec.objects, spec.anything)
                rule = build_rule(s2, single_as_list=True)
            else:
                ls = LayerSpec.from_json(inst["layerspec"])
                nl = len(ls.layers)
                by = {x[0]: x for x in ls.layers}
                rule = build_layer_rule(LayerSpec(tuple(by[n] for n in order[:nl]), ls.verb, ls.direction, ls.exc, ls.subject, tuple(order[nl:]), ls.anything))
            outs.append(evaluate_raw(rule, real_architecture(nodes, edges)))
        ok = outs[0] == outs[1]
        return ok, f"{label_of(inst)} on modules {nodes} with imports {edges}: listed as {payload['orders'][0]} -> {outs[0]!r}; listed as {payload['orders'][1]} -> {outs[1]!r}", {"outcomes": [repr(o) for o in outs]}
    if kind == "scanhist":
        return replay_scanhist(payload)
    assign = {tuple(k): v for k, v in payload["assign"]}
    if kind == "pure":
        desc = tuple(payload["rule"])
        o = pure_outcome(desc, _real_arch(NODES1, assign, "e"), _real_arch(nodes2_of(desc), assign, "f"))
        ok = o[0] == "OK"
        return ok, f"rule [{show(desc)}] on imports {[(k[1], k[2]) for k, v in assign.items() if k[0] == 'e' and v]} then on a second architecture with imports {[(k[1], k[2]) for k, v in assign.items() if k[0] == 'f' and v]}: " + ("pure and re-usable" if ok else f"expected {o[1]}, got {o[2]}"), {"outcome": [str(x)[:300] for x in o]}
    if kind == "history":
        pool = [tuple(d) for d in payload["pool"]]
        o = history_outcome(pool, payload["L"], _real_arch(payload.get("nodes", NODES1), assign, "e"), lambda n: assign.get(("h", n), 0), _real_arch(payload.get("nodes", NODES1), assign, "e"))
        ok = o[0] == "OK"
        hist = [show(pool[assign.get(("h", n), 0)]) for n in range(payload["L"])]
        return ok, f"history {hist} on imports {[(k[1], k[2]) for k, v in assign.items() if k[0] == 'e' and v]}: " + ("last outcome equals a fresh evaluation" if ok else f"expected {o[1]}, got {o[2]}"), {"outcome": [str(x)[:300] for x in o]}
    # scan: real directory, real os enumeration order twice with permuted exclusion tuples
    import shutil
    import tempfile

    from pytestarch import get_evaluable_architecture

    model = TaggedFS(SCAN_CANDS, SCAN_LINES, fixed=payload.get("fixed", {}), lines_fixed=True)
    d = tempfile.mkdtemp(prefix="c15_", dir=os.environ.get("VERIF_SCRATCH"))
    try:
        model.materialise(assign, d)
        mode = payload.get("mode", "glob")
        perms = list(itertools.permutations(SCAN_EXCL if mode == "glob" else SCAN_REGEX_EXCL))
        views = []
        import pathlib

        real_iterdir = pathlib.Path.iterdir
        # the enumeration order of a real directory is an input supplied by the operating system: the replay
        # supplies two of them (ascending / descending) around the unmodified scanner
        orders = [lambda it: sorted(it), lambda it: sorted(it, reverse=True)]
        try:
            for order, ex in zip(orders, (perms[0], perms[payload["excl_perm"] % len(perms)])):
                pathlib.Path.iterdir = lambda self, order=order: iter(order(list(real_iterdir(self))))
                kw = {"exclusions": tuple(ex)} if mode == "glob" else {"exclusions": (), "regex_exclusions": tuple(ex)}
                ev = get_evaluable_architecture(os.path.join(d, "r"), os.path.join(d, "r"), **kw)
                views.append(graph_view(ev))
        finally:
            pathlib.Path.iterdir = real_iterdir
        ok = views[0] == views[1]
        return ok, f"two scans of {sorted(model.concrete(assign)[0])} with exclusion tuples {perms[0]} / {perms[payload['excl_perm'] % len(perms)]}: " + ("equal" if ok else f"{views[0]} vs {views[1]}"), {}
    finally:
        shutil.rmtree(d, ignore_errors=True)


def replay(payload: dict):
    ok, text, _ = replay_detail(payload)
    return ok, text


def run(tier: str, only: str | None = None) -> int:
    from vf.props import c15nd

    rep = runner.Report(PROP, tier)
    items = instances(tier)
    if only:
        items = [i for i in items if only in label_of(i)]
    rep.bounds = {
        "pure": f"{len(rule_pool(tier))} rules (12 shapes x named/sub, anything aliases, batches, regex subject, 13 layer rules, regex layer, 2 diagram rules) on every import relation over {NODES1} and a second architecture over {NODES2}",
        "history": "length 3 over pools of 4-5 rule objects (n-ary symbolic choices), one shared evaluable",
        "order": "all permutations of 2-3 subjects / objects (12 shapes + batched anything) and of 3 layer definitions x 2 object layers on a 5-module tree with adversarial names",
        "scan": {"candidate_paths": sorted(SCAN_CANDS), "exclusions": list(SCAN_EXCL), "orders": "independent symbolic iterdir permutation per directory and scan"},
        "scanhist": {"first_scans": [str(x) for x in SCANHIST_FIRST], "judged_scans": "module_path r / r/a / r/a/x / r/rb on C04's candidate universes, by C04's absolute reference", "history_length": "2 scans (3 in the thorough tier)"},
        "ndset": c15nd.BOUNDS,
        "path_cap_per_instance": CAPS[tier],
    }
    rep.assumptions = [
        "purity => history independence for any history length is the stated inductive argument; it is machine-checked at length 3 only",
        "SymDiGraph has no mutators (an attempted write raises and is counted); on the replay side the real frozen DiGraph is compared before / after",
        "real os.scandir order is modelled by symbolic permutations (sets of <= 3 entries per directory)",
    ] + c15nd.ASSUMPTIONS
    rep.stubs = ["SymDiGraph", "SymFS with permuted iterdir"] + c15nd.STUBS
    runner.run_pool(work, items, rep, chunksize=1)
    return runner.finish(rep)
