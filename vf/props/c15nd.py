"""C15 (ndset): verdict and message do not depend on the iteration order of any pytestarch set (models the hash
seed).  Each instance runs in a dedicated interpreter (vf/engine/ndset_worker.py) because the AST-rewriting import
hook must be installed before pytestarch is loaded.  A reported dependence is replayed with real PYTHONHASHSEED
values in fresh interpreters and only reported as a violation if two seeds really differ."""

from __future__ import annotations

import json
import os
import subprocess
import sys

BOUNDS = {
    "sets": "every set(...) / set display / set comprehension / set algebra on dict views (d.keys() & e.keys()) in pytestarch.* iterates in a symbolic permutation when it holds 2-3 elements (larger sets: insertion order, outside the bound)",
    "universes": "4-module tree p, p.a, p.b, p.c (2 subjects x 1 object, 1 x 2); 3-module tree (sub-module subjects); four root modules a, b, c, d for 2 subjects x 2 objects (thorough)",
}
ASSUMPTIONS = [
    "ndset: over-approximates hash-seed dependent order; sets inside networkx / the standard library are not rewritten; ERROR outcomes are compared by exception type",
]
STUBS = ["NDSet (AST-rewriting import hook, dedicated interpreter)"]
VERIF = os.path.dirname(os.path.dirname(os.path.dirname(os.path.abspath(__file__))))
CAPS = {"quick": 1 << 16, "thorough": 1 << 19}
N4 = ["p", "p.a", "p.b", "p.c"]
N3 = ["p", "p.a", "p.b"]
N5 = ["a", "b", "c", "d"]  # four roots: 2 subjects x 2 objects without a shared parent


def instances(tier: str) -> list[dict]:
    from vf.oracles.layers import LayerSpec
    from vf.universes import SHAPES, RuleSpec

    out = []

    def add(nodes, desc, label, window=None):
        inst = {"part": "ndset", "nodes": nodes, "rule": list(desc), "label": "ndset " + label, "cap": CAPS[tier]}
        if window:
            inst.update({"window": window, "background": []})
        out.append(inst)

    shapes = SHAPES if tier == "thorough" else SHAPES[::2] + SHAPES[1::6]
    for verb, direction, exc in shapes:
        s = RuleSpec(verb, direction, exc, "named", ("p.a", "p.b"), "named", ("p.c",))
        add(N4, ("rule", s.as_json()), s.label())
        s = RuleSpec(verb, direction, exc, "named", ("p.a",), "named", ("p.b", "p.c"))
        add(N4, ("rule", s.as_json()), s.label())
    for verb, direction, exc in (SHAPES if tier == "thorough" else SHAPES[::3]):
        if tier == "thorough":
            s = RuleSpec(verb, direction, exc, "named", ("a", "b"), "named", ("c", "d"))
            add(N5, ("rule", s.as_json()), s.label())
        s = RuleSpec(verb, direction, exc, "sub", ("p",), "named", ("p",))
        add(N3, ("rule", s.as_json()), s.label())
    # nested 'sub modules of' filters (a package and one of its own sub packages in one batch): the sets built
    # from them mix a parent's exclusion with its child's sub-module set
    NC = ["a", "a.x", "a.x.y", "b"]
    for verb, direction, exc in (SHAPES if tier == "thorough" else SHAPES[::2]):
        s = RuleSpec(verb, direction, exc, "named", ("b",), "sub", ("a", "a.x"))
        add(NC, ("rule", s.as_json()), s.label())
        s = RuleSpec(verb, direction, exc, "sub", ("a", "a.x"), "named", ("b",))
        add(NC, ("rule", s.as_json()), s.label())
    for d in ("import", "imported"):
        s = RuleSpec("should_not", d, False, "named", ("p.a", "p.b"), "named", (), True)
        add(N4, ("rule", s.as_json()), s.label())
    s = RuleSpec("should_only", "import", False, "regex", (r"p\.(a|b)",), "named", ("p.c",))
    add(N4, ("rule", s.as_json()), s.label())
    layers = (("L0", "names", ("p.a", "p.b")), ("L1", "names", ("p.c",)))
    for verb, direction, exc in (SHAPES if tier == "thorough" else SHAPES[::4]):
        ls = LayerSpec(layers, verb, "access" if direction == "import" else "accessed", exc, "L0", ("L1",))
        add(N4, ("layer", ls.as_json()), ls.label())
    # module names that differ only in letter case (legal on a case-sensitive file system): every line of a report
    # must still have its place
    NCASE = ["p", "p.h", "p.H", "p.c"]
    for verb, direction, exc in (("should_not", "import", False), ("should_only", "import", True)):
        s = RuleSpec(verb, direction, exc, "named", ("p.h", "p.H"), "named", ("p.c",))
        add(NCASE, ("rule", s.as_json()), "case-twins " + s.label())
    s = RuleSpec("should_not", "import", False, "sub", ("p",), "named", ("p.c",))
    add(NCASE, ("rule", s.as_json()), "case-twins " + s.label())
    # a package and one of its own sub packages listed in DIFFERENT layers: whatever the library makes of a module below
    # both (today: LayerMismatch), it must not depend on how the set of candidate layers is iterated
    nested_layers = (("L0", "names", ("a",)), ("L1", "names", ("a.x",)), ("L2", "names", ("b",)))
    for verb, direction, exc, subj, obj in (("should_not", "import", False, "L0", "L1"), ("should", "import", False, "L2", "L1"), ("should_only", "import", False, "L0", "L2"), ("should_not", "imported", True, "L1", "L2")):
        ls = LayerSpec(nested_layers, verb, "access" if direction == "import" else "accessed", exc, subj, (obj,))
        add(NC, ("layer", ls.as_json()), "nested layers " + ls.label())
    # (a diagram generates a dozen rules; the symbolic relation is a window of the four imports the drawn arrows and
    # one undrawn pair speak about, every other import absent)
    dwin = [["p.a", "p.c"], ["p.b", "p.c"], ["p.c", "p.a"], ["p.a", "p.b"]]
    add(N4, ("diagram-alias", False), "DiagramRule should, arrow sources written by alias", window=dwin)
    if tier == "thorough":
        add(N4, ("diagram", True), "DiagramRule should_only")
        add(N4, ("diagram-alias", True), "DiagramRule should_only, arrow sources written by alias", window=dwin + [["p.c", "p.b"], ["p.b", "p.a"]])
    return out


def work(inst: dict) -> dict:
    env = dict(os.environ)
    p = subprocess.run([sys.executable, "-m", "vf.engine.ndset_worker", json.dumps(inst)], capture_output=True, text=True, cwd=VERIF, env=env, timeout=3600)
    line = p.stdout.strip().splitlines()[-1] if p.stdout.strip() else ""
    try:
        res = json.loads(line)
    except Exception:  # noqa: BLE001
        return {"label": inst["label"], "errors": [f"ndset worker failed: rc={p.returncode} {p.stderr[-600:]}"]}
    res["functions"] = set(res.get("functions", []))
    dep = res.pop("dependence", None)
    if dep:
        payload = {"kind": "ndset", "nodes": inst["nodes"], "rule": inst["rule"], "edges": [list(e) for e in dep["edges"]], "modelled": dep}
        ok, text, detail = replay_detail(payload)
        res["replays"] = res.get("replays", 0) + 1
        if ok:
            res["errors"].append(f"{inst['label']}: the outcome depends on a modelled set order ({dep}) but 32 real hash seeds agree: inconclusive (over-approximation)")
        else:
            payload.update({"text": text, "observed": detail, "signature": {"rule": inst["rule"]}})
            res.setdefault("violations", []).append(payload)
    return res


_SEED_SCRIPT = r"""
import json, sys
sys.path.insert(0, %(verif)r)
from vf.props import c15
from vf.engine.stubs_graph import real_architecture
p = json.loads(sys.argv[1])
o = c15.evaluate_raw(c15.make_rule(tuple(p["rule"])), real_architecture(p["nodes"], [tuple(e) for e in p["edges"]]))
print(json.dumps(list(o)))
"""


def replay_detail(payload: dict):
    outs = {}
    for seed in range(32):
        env = dict(os.environ)
        env["PYTHONHASHSEED"] = str(seed)
        p = subprocess.run([sys.executable, "-c", _SEED_SCRIPT % {"verif": VERIF}, json.dumps({k: payload[k] for k in ("rule", "nodes", "edges")})], capture_output=True, text=True, cwd=VERIF, env=env, timeout=300)
        outs.setdefault(p.stdout.strip() or f"rc={p.returncode} {p.stderr[-200:]}", []).append(seed)
    ok = len(outs) == 1
    return ok, f"rule {payload['rule']} on modules {payload['nodes']} with imports {payload['edges']} under PYTHONHASHSEED 0..31: " + ("one outcome" if ok else f"{len(outs)} different outcomes: " + "; ".join(f"seeds {v[:4]} -> {k[:200]}" for k, v in outs.items())), {"by_seed": {k[:300]: v for k, v in outs.items()}}
