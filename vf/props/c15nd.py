BOUNDS = {}
ASSUMPTIONS = []
STUBS = []
def instances(tier): return []
