"""C16 - layer definitions are well-formed: one layer per module, unique names, ordering guards.

(a) SYMEX over builder histories (n-ary symbolic choice per step) for LayeredArchitecture and LayerRule with
    a specification automaton running alongside: a call raises a configuration error exactly when the
    automaton rejects it; accepted definitions render exactly what was supplied, in order.
(b) XH kernel: two layers, symbolic module-name strings passed as str or [str]: the second call is rejected
    iff the names are equal.
"""

from __future__ import annotations

import z3

from vf.engine import runner
from vf.engine.histories import Sym, play
from vf.engine.rulesym import explore_fn, solver, solver_delta
from vf.engine.symex import VarPool
from vf.engine.xh import run_kernels
from vf.oracles.builders import LayeredArchitectureAutomaton, LayerRuleAutomaton
from vf.props.c13 import LAYER_VOCAB, _mk_arch

PROP = "C16"
LEN = {"quick": 7, "thorough": 9}
CAP = 1 << 23

ARCH_VOCAB = [
    Sym("layer", "L1"),
    Sym("layer", "L2"),
    Sym("containing_modules", "a"),
    Sym("containing_modules", "ba"),
    Sym("containing_modules", ["a"]),
    Sym("containing_modules", ["ba"]),
    Sym("containing_modules", ["a", "ba"]),
    Sym("containing_modules", "mod"),
    Sym("containing_modules", []),
    Sym("have_modules_with_names_matching", "a.*"),
    Sym("with_layer"),
]

# definitions that are READ while they are being built (str(), the layer mapping handed to rules, a LayerRule based on
# the half-built object) and extended afterwards: every later view must list what was supplied up to then
ARCH_VOCAB_READ = [
    Sym("layer", "L1"),
    Sym("layer", "L2"),
    Sym("layer", "L3"),
    Sym("containing_modules", "a"),
    Sym("containing_modules", ["ba", "mod"]),
    Sym("have_modules_with_names_matching", "a.*"),
    Sym("have_modules_with_names_matching", "c.*"),
    Sym("READ"),
]


# three layers, three module names: a module of the FIRST layer offered to the third one, in either form
ARCH_VOCAB3 = [
    Sym("layer", "L1"),
    Sym("layer", "L2"),
    Sym("layer", "L3"),
    Sym("containing_modules", "a"),
    Sym("containing_modules", ["ba"]),
    Sym("containing_modules", "c"),
    Sym("containing_modules", ["c", "a"]),
    Sym("containing_modules", ["ba", "c"]),
    Sym("containing_modules", ["mod", "ba"]),
]
# a layer defined by a regex that is literally a module name, and that name then offered to another layer by name (str
# form, list form, inside a longer list): the module would sit in two layers
ARCH_VOCAB_RX = [
    Sym("layer", "L1"),
    Sym("layer", "L2"),
    Sym("have_modules_with_names_matching", "mod"),
    Sym("have_modules_with_names_matching", "a.*"),
    Sym("containing_modules", "mod"),
    Sym("containing_modules", ["mod"]),
    Sym("containing_modules", ["a", "mod"]),
]
# LayerRule chains: C13's vocabulary plus an architecture object that holds no layer at all
LAYER_VOCAB16 = LAYER_VOCAB + [Sym("based_on", "EMPTY_ARCH")]
VOCABS = {"arch": ARCH_VOCAB, "arch3": ARCH_VOCAB3, "archread": ARCH_VOCAB_READ, "archrx": ARCH_VOCAB_RX}


def _mk_layered():
    from pytestarch import LayeredArchitecture

    return LayeredArchitecture()


def _mk_layer_rule():
    from pytestarch import LayerRule

    return LayerRule()


def mapping_view(obj):
    """The definition as rules see it: LayeredArchitecture.layer_mapping (layers in order, module filters per layer,
    layer of each listed module)."""
    lm = obj.layer_mapping
    layers = tuple(lm.all_layers)
    per = tuple((n, tuple(f.identifier for f in lm.get_module_filters(n))) for n in layers)
    owner = tuple((n, f.identifier, lm.get_layer_for_module_name(f.identifier)) for n in layers for f in lm.get_module_filters(n) if type(f).__name__ == "ModuleNameFilter")
    return per, owner


def _read(arg):
    if isinstance(arg, tuple) and arg and arg[0] == "READ":
        obj = arg[1]
        str(obj)
        mapping_view(obj)
        try:
            from pytestarch import LayerRule

            LayerRule().based_on(obj).layers_that()
        except Exception:  # noqa: BLE001 - building a rule on a half-built definition may be refused; it must not change it
            pass
        return None
    return arg


def arch_outcome(seq_or_len, prefix=(), vocab=None):
    hist, expects, final, real, obj, aut = play(seq_or_len, vocab or ARCH_VOCAB, _mk_layered, LayeredArchitectureAutomaton, None, _read, prefix=prefix)
    exp_pos = expects[0] if expects else None
    if real[0] == "RAISED":
        got = (real[1], "CONFIG" if real[2] == "ImproperlyConfigured" else real[2])
    else:
        got = None
    want = (exp_pos[0], "CONFIG") if exp_pos else None
    if want != got:
        return ("MISMATCH", want, got)
    if got is None:
        # accepted definition: lists exactly what was supplied, in order
        try:
            rendered = str(obj)
            per_layer = tuple((n, tuple(f.identifier for f in obj[n])) for n, m, _ in aut.layers)
        except Exception as e:  # noqa: BLE001
            return ("MISMATCH", "render", type(e).__name__)
        spec_layers = tuple((n, tuple(m or [])) for n, m, _ in aut.layers)
        if rendered != aut.render() or per_layer != spec_layers:
            return ("MISMATCH", aut.render(), rendered)
        try:
            per, owner = mapping_view(obj)
        except Exception as e:  # noqa: BLE001
            return ("MISMATCH", "layer_mapping of the accepted definition", type(e).__name__)
        want_owner = tuple((n, m, n) for n, ms, kind in aut.layers if kind == "names" for m in ms)
        if per != spec_layers or owner != want_owner:
            return ("MISMATCH", f"layer_mapping lists {spec_layers}, owners {want_owner}", f"layer_mapping lists {per}, owners {owner}")
        return ("ACCEPTED",)
    # a rejected call supplies nothing: the definition still lists exactly what the accepted calls supplied
    try:
        rendered = str(obj)
    except Exception as e:  # noqa: BLE001
        return ("MISMATCH", "render after the rejected call", type(e).__name__)
    if rendered != aut.render():
        return ("MISMATCH", f"after the rejected call #{got[0] + 1}: {aut.render()}", rendered)
    return ("REJECTED-AS-SPECIFIED",)


def rule_outcome(seq_or_len, prefix=()):
    def resolve(a):
        return _mk_arch() if a == "ARCH" else a

    made = []

    def resolve(a):  # noqa: F811 - remembers the architecture objects handed to the rule
        if a == "ARCH":
            made.append(_mk_arch())
            return made[-1]
        if a == "EMPTY_ARCH":
            return _mk_layered()
        return a

    hist, expects, final, real, obj, aut = play(seq_or_len, LAYER_VOCAB16, _mk_layer_rule, lambda: LayerRuleAutomaton({"A", "B"}), None, resolve, prefix)
    # building (and half-building) rules must leave the shared LayeredArchitecture exactly as it was defined
    want_render = str(_mk_arch())
    for arch in made:
        if str(arch) != want_render:
            return ("MISMATCH", want_render, str(arch))
    exp = expects[0] if expects else None
    if real[0] == "RAISED":
        kind = "CONFIG" if real[2] == "ImproperlyConfigured" else "OTHER"
        got = (real[1], kind)
    else:
        got = None
    if exp is None:
        want = None
    elif exp[1] == "REJECT":
        want = (exp[0], "CONFIG")
    else:  # LOOKUP: any error at that call
        want = (exp[0], got[1] if got else "OTHER")
    if want != got:
        return ("MISMATCH", str(want), str(got))
    return ("ACCEPTED",) if got is None else ("REJECTED-AS-SPECIFIED",)


def instances(tier: str) -> list[dict]:
    L = LEN[tier]
    out = []
    for first in range(len(ARCH_VOCAB)):
        out.append({"part": "arch", "first": first, "L": L})
    for first in range(3):
        out.append({"part": "arch3", "first": first, "L": 6 if tier == "quick" else 7})
    out.append({"part": "archread", "first": 0, "L": 7 if tier == "quick" else 8})
    for first in range(2):
        out.append({"part": "archrx", "first": first, "L": 5 if tier == "quick" else 6})
    for first in range(len(LAYER_VOCAB16)):
        out.append({"part": "rule", "first": first, "L": L})
    from vf.engine.xh import kernel_names

    for k in kernel_names("vf.kernels.k16"):
        out.append({"part": "kernel", "name": k})
    return out


def label_of(i) -> str:
    return " ".join(f"{k}={v}" for k, v in i.items())


def work(inst: dict) -> dict:
    before = solver().stats()
    if inst["part"] == "kernel":
        res = run_kernels("vf.kernels.k16", inst.get("tier", "quick"), [inst["name"]])
        res["label"] = f"kernel {inst['name']}"
        return res
    vocab = VOCABS.get(inst["part"], LAYER_VOCAB16)
    if inst["part"] in VOCABS:

        def outcome(n, pre):
            return arch_outcome(n, pre, vocab)

    else:
        outcome = rule_outcome
    prefix = (vocab[inst["first"]],)
    Ls = inst["L"] - 1

    def fn():
        return outcome(Ls, prefix)

    summ, funcs, over = explore_fn(fn, CAP)
    res = {"label": label_of(inst), "functions": funcs, "variables_total": Ls, "errors": [], "violations": [], "replays": 0}
    if over:
        res["over_budget"] = True
        return res
    pool = VarPool()
    for n in range(Ls):
        pool(("h", n), len(vocab) + 1)
    bad = summ.formula(lambda o: o[0] == "MISMATCH", pool)
    st, model = solver().check(*pool.domain, bad)
    res.update({"paths": summ.paths, "forks": summ.forks, "explore_s": summ.explore_s, "degenerate": True})
    res["samples"] = [{"part": inst["part"], "first": prefix[0].show(), "max_len": inst["L"], "histories": summ.paths, "outcome_classes": sorted({o[0] for o in summ.outcomes()})}]
    if st == "unknown":
        res["errors"].append("solver unknown")
    elif st == "sat":
        assign = pool.model_to_assign(model)
        seq = list(prefix)
        for n in range(Ls):
            c = assign.get(("h", n), 0)
            if c == 0:
                break
            seq.append(vocab[c - 1])
        payload = {"kind": inst["part"], "history": [[s.name, s.arg] for s in seq]}
        ok, text, detail = replay_detail(payload)
        res["replays"] += 1
        if ok:
            res["errors"].append(f"non-reproducing counterexample {text}")
        else:
            payload["observed"] = detail
            payload["signature"] = payload["history"]
            res["violations"].append(payload)
    res.update(solver_delta(before))
    return res


def replay_detail(payload: dict):
    if payload["kind"] == "kernel":
        from vf.engine.xh import replay_kernel

        return replay_kernel(payload)
    seq = [Sym(n, a) for n, a in payload["history"]]
    o = arch_outcome(seq) if payload["kind"] in VOCABS else rule_outcome(seq)
    ok = o[0] != "MISMATCH"
    text = f"{payload['kind']} builder history {' . '.join(s.show() for s in seq)}: specification expects {o[1] if not ok else 'the observed behaviour'}, real code -> {o[2] if not ok else o[0]}"
    return ok, text, {"outcome": [str(x) for x in o]}


def replay(payload: dict):
    ok, text, _ = replay_detail(payload)
    return ok, text


def run(tier: str, only: str | None = None) -> int:
    rep = runner.Report(PROP, tier)
    items = instances(tier)
    for i in items:
        i["tier"] = tier
    if only:
        items = [i for i in items if only in label_of(i)]
    rep.bounds = {
        "history_length": LEN[tier],
        "vocabularies": {"LayeredArchitecture": [s.show() for s in ARCH_VOCAB], "LayeredArchitecture, three layers (length 6 / 7)": [s.show() for s in ARCH_VOCAB3], "LayeredArchitecture with intermediate reads (length 7 / 8)": [s.show() for s in ARCH_VOCAB_READ], "LayerRule": [s.show() for s in LAYER_VOCAB16]},
        "kernel": "module names: symbolic strings <= 3 chars, each passed as str or [str]",
    }
    rep.assumptions = ["the history dimension is enumerated by the symbolic executor (n-ary choices); it is a finite exhaustive walk, marked degenerate", "module names in the vocabulary: 'a', 'ba', 'mod' (single- and multi-character, sharing characters)"]
    runner.run_pool(work, items, rep)
    return runner.finish(rep)
