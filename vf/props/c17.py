"""C17 - plot labels: aliases replace the nearest aliased ancestor, all modules labelled, options passed through.

(a) XH kernels (vf/kernels/k17.py): `_create_label` with module / aliased-module / alias strings symbolic.
(b) SYMEX: the real `EvaluableArchitectureGraph.visualize(**kw)` with the draw spy on trees with prefix
    siblings; symbolic: which modules carry an alias (one bit per module), whether an alias is given for a
    module that does not exist, whether `spacing` / an extra pass-through option / an `ax`-like object
    option are supplied; the leaf compares what reached the drawing backend with the label function.
"""

from __future__ import annotations

from vf.engine import runner
from vf.engine.mm import check_no_mismatch
from vf.engine.stubs_draw import LAYOUT, draw_spy
from vf.engine.stubs_graph import real_architecture
from vf.engine.symex import ENGINE
from vf.engine.xh import kernel_names, replay_kernel, run_kernels
from vf.universes import is_anc_or_self

PROP = "C17"
CAP = 1 << 16

UNIVERSES = {
    "prefix-siblings": ["pkg", "pkg.a", "pkg.a.x", "pkg.ab", "pkg.a_b"],
    "nested": ["r", "r.m", "r.m.n", "r.m.n.o", "r.mn"],
    # module names that differ from an aliased name only where that name has a dot (the dot read as a wildcard)
    "look-alike": ["p", "p.a", "p.a.b", "p.a_b", "p_a", "p_a.b"],
    "two-roots": ["a", "a.b", "ab", "ab.b", "b"],
    "deep-prefix": ["s", "s.t", "s.t.u", "s.t.uv", "s.tu", "s.t.u.w"],
}
# architectures whose module list does not spell out every parent package (parents are implied by the
# hierarchy), optionally level-limited, optionally with external modules that only appear through imports
IMPLICIT = {
    "implicit-parents": {"listed": ["pkg.a.x", "pkg.ab", "pkg.a.y.z"], "edges": [], "level_limit": None},
    "level-limited": {"listed": ["r", "r.m", "r.m.n", "r.m.n.o", "r.mn"], "edges": [("r.m.n.o", "r.mn")], "level_limit": 2},
    "externals": {"listed": ["app", "app.core", "app.web"], "edges": [("app.web", "os.path"), ("app.core", "app.web")], "level_limit": None, "extra": ["os", "os.path"]},
}
ALIASES = ["A", "", "x.y", "a+", "(", "pkg", ".", "Zz"]
MISSING = {"look-alike": "p.a.c", "prefix-siblings": "pkg.abc", "nested": "r.m.", "two-roots": "a.", "deep-prefix": "s.t.u.v"}
TOO_DEEP = {"level-limited": "r.m.n.o"}
AX = ("AX-OBJECT",)


def oracle_labels(nodes, aliases: dict) -> dict:
    out = {}
    for n in nodes:
        c = [m for m in aliases if is_anc_or_self(m, n)]
        if not c:
            out[n] = n
        else:
            best = max(c, key=lambda m: m.count("."))
            out[n] = aliases[best] + n[len(best):]
    return out


def observe(ev, nodes, kw: dict):
    """Calls the real visualize with the draw spy; returns the outcome compared with the oracle."""
    al = kw.get("aliases")
    with draw_spy() as spy:
        try:
            ev.visualize(**kw)
        except Exception as e:  # noqa: BLE001
            got = ("ERROR", type(e).__name__, str(e))
        else:
            got = ("DRAWN",)
    missing = [m for m in (al or {}) if m not in nodes]
    if missing:
        if got[0] == "ERROR" and got[1] in ("KeyError", "ValueError", "ImproperlyConfigured") and any(m in got[2] for m in missing) and not spy.draw_calls:
            return ("OK", "rejected-missing-module")
        return ("MISMATCH", f"an error naming one of {missing}", str(got) + f" draw_calls={len(spy.draw_calls)}")
    if got[0] != "DRAWN" or len(spy.draw_calls) != 1:
        return ("MISMATCH", "one call into the drawing backend", str(got) + f" draw_calls={len(spy.draw_calls)}")
    args, passed = spy.draw_calls[0]
    want = {k: v for k, v in kw.items() if k not in ("aliases", "spacing")}
    if al is not None:
        want["labels"] = oracle_labels(nodes, al)
    if "spacing" in kw:
        want["pos"] = LAYOUT
        if len(spy.layout_calls) != 1 or spy.layout_calls[0][1].get("k") != kw["spacing"]:
            return ("MISMATCH", "spring_layout(graph, k=spacing)", str(spy.layout_calls)[:200])
    if set(passed) != set(want):
        return ("MISMATCH", f"keywords {sorted(want)}", f"keywords {sorted(passed)}")
    for k, v in want.items():
        if k == "labels":
            if passed[k] != v:
                diff = {n: (passed[k].get(n), v[n]) for n in v if passed[k].get(n) != v[n]}
                extra = sorted(set(passed[k]) - set(v))
                return ("MISMATCH", f"labels {diff and {n: w for n, (g, w) in diff.items()}}", f"labels {diff and {n: g for n, (g, w) in diff.items()}} extra={extra}")
        elif passed[k] is not v and passed[k] != v:
            return ("MISMATCH", f"{k}={v!r} unchanged", f"{k}={passed[k]!r}")
    if len(args) != 1:
        return ("MISMATCH", "graph as the only positional argument", f"{len(args)} positional arguments")
    return ("OK", "drawn")


def arch_of(u: str):
    """(evaluable, node list) of a universe."""
    if u in UNIVERSES:
        return real_architecture(UNIVERSES[u], []), list(UNIVERSES[u])
    spec = IMPLICIT[u]
    ev = real_architecture(spec["listed"] + spec.get("extra", []), spec["edges"], level_limit=spec["level_limit"])
    return ev, sorted(ev.modules)


def nodes_of(u: str) -> list:
    return arch_of(u)[1]


def kw_of(u: str, sel) -> dict:
    """sel(key) -> 0/1 : the keyword arguments of one visualize call."""
    nodes = nodes_of(u)
    kw: dict = {}
    if sel(("opt", "aliases")):
        al = {}
        for i, n in enumerate(nodes):
            if sel(("alias", n)):
                # the alias text: a fixed text per module, or the module's own full name (an identity alias, which
                # keeps a sub-tree unabbreviated below an aliased ancestor)
                al[n] = n if sel(("ident", n)) else ALIASES[i % len(ALIASES)]
        if sel(("alias", "<missing>")):
            mname = MISSING.get(u, nodes[-1] + ".nope")
            al[mname] = mname if sel(("ident", "<missing>")) else "M"
        if u in IMPLICIT and IMPLICIT[u]["level_limit"] is not None and sel(("alias", "<too-deep>")):
            # a module that was scanned but lies below the level limit is not a module of the architecture
            al[TOO_DEEP[u]] = "D"
        kw["aliases"] = al
    if sel(("opt", "spacing")):
        kw["spacing"] = 0.37
    if sel(("opt", "node_size")):
        kw["node_size"] = 77
    if sel(("opt", "ax")):
        kw["ax"] = AX
    return kw


HIST_NODES = 3  # modules that may carry an alias in the two-call histories
ALT_ALIASES = ["Store", "B", "", "q.r"]


def kw_hist(u: str, nodes: list, sel, call: int) -> dict:
    """Keyword arguments of call number `call` of a two-call history on ONE architecture object: which of the first
    HIST_NODES modules carry an alias, and which of two alias texts each of them gets, are symbolic per call."""
    al = {}
    for i, n in enumerate(nodes[:HIST_NODES]):
        if sel(("h", call, "alias", n)):
            al[n] = ALT_ALIASES[i % len(ALT_ALIASES)] if sel(("h", call, "alt", n)) else ALIASES[i % len(ALIASES)]
    kw = {"aliases": al}
    if sel(("h", call, "spacing")):
        kw["spacing"] = 0.37 if call == 0 else 0.11
    return kw


def keys_hist(nodes: list) -> list:
    out = []
    for call in (0, 1):
        for n in nodes[:HIST_NODES]:
            out += [(("h", call, "alias", n), 2), (("h", call, "alt", n), 2)]
        out.append((("h", call, "spacing"), 2))
    return out


def observe_hist(u: str, sel):
    """Two visualize calls on the same (fresh) architecture object; each must be labelled per the label function of
    ITS OWN alias map (nothing may be carried over from the first call)."""
    ev, nodes = arch_of(u)
    for call in (0, 1):
        kw = kw_hist(u, nodes, sel, call)
        o = observe_spacing(ev, nodes, kw)
        if o[0] != "OK":
            return ("MISMATCH", f"call {call + 1}: {o[1]}", f"call {call + 1}: {o[2]}")
    return ("OK", "drawn twice")


def observe_spacing(ev, nodes, kw):
    o = observe(ev, nodes, {k: v for k, v in kw.items()})
    return o


def keys_of(u: str) -> list:
    nodes = nodes_of(u)
    extra = [(("alias", "<too-deep>"), 2)] if u in TOO_DEEP else []
    return [(("opt", o), 2) for o in ("aliases", "spacing", "node_size", "ax")] + [(("alias", n), 2) for n in nodes] + [(("ident", n), 2) for n in nodes] + [(("alias", "<missing>"), 2), (("ident", "<missing>"), 2)] + extra


def instances(tier: str) -> list[dict]:
    out = [{"part": "kernel", "name": k, "tier": tier} for k in kernel_names("vf.kernels.k17")]
    us = (["prefix-siblings", "nested", "look-alike"] if tier == "quick" else list(UNIVERSES)) + list(IMPLICIT)
    out += [{"part": "visualize", "universe": u} for u in us]
    out += [{"part": "history", "universe": u} for u in (["prefix-siblings"] if tier == "quick" else ["prefix-siblings", "nested", "level-limited"])]
    return out


def label_of(i) -> str:
    return " ".join(f"{k}={v}" for k, v in i.items() if k != "tier")


def work(inst: dict) -> dict:
    if inst["part"] == "kernel":
        res = run_kernels("vf.kernels.k17", inst["tier"], [inst["name"]])
        res["label"] = label_of(inst)
        return res
    u = inst["universe"]
    ev, nodes = arch_of(u)
    if inst["part"] == "history":

        def fn_h():
            return observe_hist(u, lambda k: ENGINE.branch(k))

        def payload_h(assign):
            return {"kind": "history", "universe": u, "nodes": nodes, "assign": [[list(k), v] for k, v in sorted(assign.items(), key=str)]}

        return check_no_mismatch(label_of(inst), fn_h, CAP, payload_h, replay_detail, all_keys=keys_hist(nodes), sample={"universe": nodes, "history": "two visualize calls on one architecture object"})

    def fn():
        return observe(ev, nodes, kw_of(u, lambda k: ENGINE.branch(k)))

    def make_payload(assign):
        return {"kind": "visualize", "universe": u, "nodes": nodes, "assign": [[list(k), v] for k, v in sorted(assign.items(), key=str)]}

    return check_no_mismatch(label_of(inst), fn, CAP, make_payload, replay_detail, all_keys=keys_of(u), sample={"universe": nodes})


def replay_detail(payload: dict):
    if payload["kind"] == "kernel":
        return replay_kernel(payload)
    ev, nodes = arch_of(payload["universe"])
    assign = {tuple(k): v for k, v in payload["assign"]}
    if payload["kind"] == "history":
        sel = lambda k: assign.get(k, 0)  # noqa: E731
        o = observe_hist(payload["universe"], sel)
        calls = [kw_hist(payload["universe"], nodes, sel, c) for c in (0, 1)]
        ok = o[0] == "OK"
        text = f"visualize(**{calls[0]}) then visualize(**{calls[1]}) on the same architecture object (modules {nodes}): " + ("as specified" if ok else f"expected {o[1]}, drawing backend got {o[2]}")
        return ok, text, {"outcome": [str(x) for x in o]}
    kw = kw_of(payload["universe"], lambda k: assign.get(k, 0))
    o = observe(ev, nodes, kw)
    ok = o[0] == "OK"
    shown = {k: (v if k != "ax" else "<object>") for k, v in kw.items()}
    text = f"visualize(**{shown}) on modules {nodes}: " + ("as specified" if ok else f"expected {o[1]}, drawing backend got {o[2]}")
    return ok, text, {"outcome": [str(x) for x in o]}


def replay(payload: dict):
    ok, text, _ = replay_detail(payload)
    return ok, text


def run(tier: str, only: str | None = None) -> int:
    rep = runner.Report(PROP, tier)
    items = instances(tier)
    if only:
        items = [i for i in items if only in label_of(i)]
    rep.bounds = {
        "kernels": "module name <= 5 chars, aliased names <= 4 chars, well-formed dotted names over {a,b,.}; alias strings <= 2 (one alias) / <= 1 (two aliases) arbitrary characters",
        "universes": {u: UNIVERSES[u] for u in UNIVERSES},
        "implicit_universes": IMPLICIT,
        "alias_strings": ALIASES + ["<the module's own full name> (symbolic bit per aliased module)"],
        "histories": "two consecutive visualize calls on one architecture object; per call: alias present per module (first 3 modules), one of two alias texts per module, spacing (symbolic bits)",
        "options": ["aliases present/absent", "alias per module (one bit each)", "alias for a missing module", "spacing", "node_size", "ax"],
    }
    rep.assumptions = [
        "draw spy replaces draw_networkx / spring_layout as module globals of pytestarch.eval_structure.networkxgraph (matplotlib itself is not exercised)",
        "kernel: the alias map is an association list with dict.__getitem__ semantics; counterexamples are confirmed through visualize(aliases=<dict>)",
        "visualize instances read every option bit when the call is assembled: exhaustive walk over 2^(modules+5) option sets, marked degenerate; the 'for all names' weight is carried by the kernels",
    ]
    rep.stubs = ["draw spy (draw_networkx, spring_layout)"]
    runner.run_pool(work, items, rep)
    return runner.finish(rep)
