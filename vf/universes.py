"""Module trees, namings and rule-instance generators shared by the property checks."""

from __future__ import annotations

import itertools
from dataclasses import dataclass, field
from typing import Iterable

# Abstract trees.  Component labels are single capital letters; a naming maps every label to a concrete
# component name (injective on labels).
TREES: dict[str, list[str]] = {
    "T3": ["P", "P.A", "P.B"],
    "T4": ["P", "P.A", "P.B", "P.C"],
    "T5a": ["P", "P.A", "P.A.X", "P.B", "P.C"],
    "T5b": ["P", "P.A", "P.A.X", "P.B", "P.B.Y"],
    "T5c": ["P", "P.A", "P.A.X", "P.A.X.Y", "P.B"],
    "T5d": ["P", "P.A", "P.B", "Q", "Q.L"],
    "T5e": ["P", "P.A", "P.A.X", "P.B", "Q"],
    "T6a": ["P", "P.A", "P.A.X", "P.B", "P.B.Y", "P.C"],
    "T6b": ["P", "P.A", "P.A.X", "P.A.Z", "P.B", "P.C"],
    "T6c": ["P", "P.A", "P.A.X", "P.B", "Q", "Q.L"],
    "T5h": ["P", "P.A", "P.A.X", "Q", "Q.L"],  # two roots, each with a descendant: related pairs on both sides
    "T4n": ["P", "P.A", "P.A.X", "P.B"],  # smallest tree with a module, its sub module and an unrelated sibling
    "T4r": ["P", "P.A", "P.B", "Q"],  # two roots
    "T5f": ["L", "P", "P.A", "P.B", "Q"],  # three roots, one sorting before and one after P's children
    "F4": ["A", "B", "C", "D"],  # four roots, no hierarchy: 2 subjects x 2 objects all unrelated
    # six roots with one sub module each plus a bystander root: 3 subjects x 3 objects, all pairwise unrelated
    "F6x": ["P", "P.X", "Q", "Q.X", "A", "A.X", "B", "B.X", "C", "C.X", "D", "D.X", "L"],
    "T4k": ["P", "P.A", "P.A.X", "P.C"],  # adv naming: a, a.x, a.x.y, a.x_y - 'a.x.y' read as a regex also matches 'a.x_y'
    "T6d": ["P", "P.A", "P.A.X", "P.A.X.Y", "P.B", "Q"],  # a chain of depth 3 with a sibling branch and a second root
    "T7a": ["P", "P.A", "P.A.X", "P.B", "P.B.Y", "P.C", "P.D"],
}

# neutral: no component is a prefix / substring of another.
# adv: siblings are string prefixes of each other, children are named like their parents' siblings,
#      '_' variants; all legal Python identifiers.
NAMINGS: dict[str, dict[str, str]] = {
    "neutral": {"P": "pq", "Q": "qk", "A": "xr", "B": "ys", "C": "zt", "D": "wu", "X": "mv", "Y": "nw", "Z": "oh", "L": "lj"},
    # adv2: a package's name is contained in (prefix / substring of) the name of the package directly ABOVE it
    "adv2": {"P": "aab", "Q": "b", "A": "aa", "B": "aaba", "C": "aa_", "D": "ba", "X": "a", "Y": "ab", "Z": "a_", "L": "bb"},
    "adv": {"P": "a", "Q": "aa", "A": "x", "B": "xy", "C": "x_y", "D": "xx", "X": "y", "Y": "yx", "Z": "y_", "L": "ax"},
}


def concrete(tree: str, naming: str) -> list[str]:
    m = NAMINGS[naming]
    return [".".join(m[c] for c in n.split(".")) for n in TREES[tree]]


def rename(name: str, naming: str) -> str:
    m = NAMINGS[naming]
    return ".".join(m[c] for c in name.split("."))


def is_anc_or_self(a: str, b: str) -> bool:
    """a is an ancestor of b or b itself (dotted components)."""
    return a == b or b.startswith(a + ".")


def related(a: str, b: str) -> bool:
    return is_anc_or_self(a, b) or is_anc_or_self(b, a)


def desc(x: str, nodes: Iterable[str]) -> list[str]:
    return [n for n in nodes if is_anc_or_self(x, n)]


def sub(x: str, nodes: Iterable[str]) -> list[str]:
    return [n for n in nodes if n != x and is_anc_or_self(x, n)]


def parent(x: str) -> str | None:
    return x.rsplit(".", 1)[0] if "." in x else None


# ---------------------------------------------------------------------------------------------------
# rule specifications

VERBS = ("should", "should_only", "should_not")
SHAPES = [(v, d, e) for v in VERBS for d in ("import", "imported") for e in (False, True)]


@dataclass(frozen=True)
class RuleSpec:
    verb: str  # should | should_only | should_not
    direction: str  # import | imported
    exc: bool
    s_kind: str  # named | sub | regex
    subjects: tuple
    o_kind: str = "named"
    objects: tuple = ()
    anything: bool = False  # import_anything / be_imported_by_anything alias (objects ignored)

    def label(self) -> str:
        o = "anything" if self.anything else f"{self.o_kind}{list(self.objects)}"
        return f"{self.s_kind}{list(self.subjects)} {self.verb} {self.direction}{' except' if self.exc else ''} {o}"

    def as_json(self) -> dict:
        return {
            "verb": self.verb,
            "direction": self.direction,
            "except": self.exc,
            "s_kind": self.s_kind,
            "subjects": list(self.subjects),
            "o_kind": self.o_kind,
            "objects": list(self.objects),
            "anything": self.anything,
        }

    @staticmethod
    def from_json(d: dict) -> "RuleSpec":
        return RuleSpec(d["verb"], d["direction"], d["except"], d["s_kind"], tuple(d["subjects"]), d["o_kind"], tuple(d["objects"]), d.get("anything", False))


def _arg(names: tuple):
    return names[0] if len(names) == 1 else list(names)


def build_rule(spec: RuleSpec, single_as_list: bool = False):
    """The real fluent API, call by call."""
    from pytestarch import Rule

    def arg(names):
        return list(names) if single_as_list else _arg(names)

    r = Rule().modules_that()
    if spec.s_kind == "named":
        r = r.are_named(arg(spec.subjects))
    elif spec.s_kind == "sub":
        r = r.are_sub_modules_of(arg(spec.subjects))
    elif spec.s_kind == "regex":
        r = r.have_name_matching(spec.subjects[0])
    elif spec.s_kind == "partial":
        r = r.have_name_containing(arg(spec.subjects))
    elif spec.s_kind == "regexlist":
        r = r.have_name_matching(list(spec.subjects))
    else:
        raise ValueError(spec.s_kind)
    r = getattr(r, spec.verb)()
    if spec.anything:
        return r.import_anything() if spec.direction == "import" else r.be_imported_by_anything()
    if spec.direction == "import":
        r = r.import_modules_except_modules_that() if spec.exc else r.import_modules_that()
    else:
        r = r.be_imported_by_modules_except_modules_that() if spec.exc else r.be_imported_by_modules_that()
    if spec.o_kind == "named":
        r = r.are_named(arg(spec.objects))
    elif spec.o_kind == "sub":
        r = r.are_sub_modules_of(arg(spec.objects))
    elif spec.o_kind == "regex":
        r = r.have_name_matching(spec.objects[0])
    elif spec.o_kind == "partial":
        r = r.have_name_containing(arg(spec.objects))
    elif spec.o_kind == "regexlist":
        r = r.have_name_matching(list(spec.objects))
    else:
        raise ValueError(spec.o_kind)
    return r


def evaluate(rule_applier, ev, with_message: bool = True):
    """Outcome of assert_applies as a hashable value."""
    try:
        rule_applier.assert_applies(ev)
    except AssertionError as e:
        if with_message:
            msg = e.args[0] if e.args else ""
            return ("FAIL", tuple(sorted(set(str(msg).split("\n")))))
        return ("FAIL",)
    except Exception as e:  # noqa: BLE001 - configuration / lookup errors are outcomes
        return ("ERROR", type(e).__name__)
    return ("PASS",)


def unrelated_filter_sets(nodes: list[str], max_s: int, max_o: int, kinds=("named", "sub")):
    """(s_kind, S, o_kind, O) with all identifiers pairwise unrelated and distinct."""
    out = []
    for ns in range(1, max_s + 1):
        for S in itertools.combinations(nodes, ns):
            if any(related(a, b) for a, b in itertools.combinations(S, 2)):
                continue
            rest = [n for n in nodes if not any(related(n, s) for s in S)]
            for no in range(1, max_o + 1):
                for O in itertools.combinations(rest, no):
                    if any(related(a, b) for a, b in itertools.combinations(O, 2)):
                        continue
                    for sk in kinds:
                        for ok in kinds:
                            out.append((sk, S, ok, O))
    return out


def side_related_filter_sets(nodes: list[str], max_s: int, max_o: int, kinds=("named", "sub")):
    """(s_kind, S, o_kind, O): every subject identifier unrelated to every object identifier, but at least one related
    pair (a module together with one of its own descendants) INSIDE the subject list or inside the object list."""
    out = []
    for ns in range(1, max_s + 1):
        for S in itertools.combinations(nodes, ns):
            rest = [n for n in nodes if not any(related(n, s) for s in S)]
            rel_s = any(related(a, b) for a, b in itertools.combinations(S, 2))
            for no in range(1, max_o + 1):
                for O in itertools.combinations(rest, no):
                    rel_o = any(related(a, b) for a, b in itertools.combinations(O, 2))
                    if not (rel_s or rel_o):
                        continue
                    for sk in kinds:
                        for ok in kinds:
                            out.append((sk, S, ok, O))
    return out


# ---------------------------------------------------------------------------------------------------
# seeded larger universes (the "seeded random larger ones" of C01's quantifier): a random forest of n modules whose
# component names mix neutral and prefix-sibling names; the import relation is concrete at random except for a
# *window* of ordered pairs that stay symbolic (rulesym.SymArch(window=, background=)).

COMPONENT_POOL = ["a", "ab", "a_b", "aa", "b", "ba", "x", "xy", "x_y", "core", "core_utils", "py", "pyx", "m", "n", "k"]


def random_forest(rnd, n: int, max_depth: int = 4, roots: int = 2) -> list[str]:
    nodes: list[str] = []
    while len(nodes) < n:
        if len([x for x in nodes if "." not in x]) < roots and (not nodes or rnd.random() < 0.25):
            par = None
        else:
            cands = [x for x in nodes if x.count(".") + 1 < max_depth]
            par = rnd.choice(cands) if cands else None
        used = {x.rsplit(".", 1)[-1] for x in nodes if parent(x) == par}
        free = [c for c in COMPONENT_POOL if c not in used]
        if not free:
            continue
        c = rnd.choice(free)
        nodes.append(c if par is None else f"{par}.{c}")
    return sorted(nodes)


def random_window(rnd, nodes: list[str], k: int, density: float = 0.15, focus: list[str] | None = None):
    """(window, background): k symbolic ordered pairs (two thirds of them touching a ``focus`` module or one of its
    relatives when given) and a random concrete relation over the remaining pairs."""
    pairs = [(x, y) for x in nodes for y in nodes if x != y and parent(y) != x]
    near = [p for p in pairs if focus and any(related(p[0], f) or related(p[1], f) for f in focus)]
    rnd.shuffle(near)
    win = near[: (2 * k) // 3]
    rest = [p for p in pairs if p not in set(win)]
    rnd.shuffle(rest)
    win += rest[: k - len(win)]
    ws = set(win)
    bg = [p for p in pairs if p not in ws and rnd.random() < density]
    return sorted(win), sorted(bg)


def random_unrelated_spec(rnd, nodes: list[str], kinds=("named", "sub"), max_s: int = 3, max_o: int = 3):
    """A random (s_kind, S, o_kind, O) with pairwise unrelated identifiers, or None."""
    for _ in range(50):
        ns, no = rnd.randint(1, max_s), rnd.randint(1, max_o)
        order = list(nodes)
        rnd.shuffle(order)
        chosen: list[str] = []
        for x in order:
            if all(not related(x, c) for c in chosen):
                chosen.append(x)
            if len(chosen) == ns + no:
                break
        if len(chosen) < ns + no:
            continue
        sk, ok = rnd.choice(kinds), rnd.choice(kinds)
        S, O = tuple(sorted(chosen[:ns])), tuple(sorted(chosen[ns:]))
        if sk == "sub" and any(not sub(s, nodes) for s in S):
            continue
        if ok == "sub" and any(not sub(o, nodes) for o in O):
            continue
        return sk, S, ok, O
    return None
